#!/usr/bin/env python3
"""Writes MANIFEST.json from registry.py (claimed properties) + the fixed not_applicable list."""
import json, os, subprocess, sys
sys.path.insert(0, "/verif")
import registry

TEXT = {
 "C01": "Bounded model checking of the real column-extraction code (ColumnParsing::extract -> extract_using_regex Split arm -> ValueType::parse) on a split result played by the harness: per shape (pattern matched or not, field present or not, DEFAULT or not) and for every field of <= 1 byte and every DEFAULT value, the column is the literal / NULL / DEFAULT / BOOLEAN-as-existence / own field / one-element array exactly as stated.",
 "C02": "Bounded model checking of the real JSON extraction code (ColumnParsing::extract Json arm -> JsonAccess::get_value -> ValueType::convert_from_json) on harness-built JSON array documents: per column type x leaf kind, for every i64 / u64 / finite f64 / bool payload and every index, the column holds the addressed value typed without coercion, NULL on a type mismatch or JSON null (DEFAULT not used), DEFAULT or NULL only when the path is absent; nested index paths address exactly their element.",
 "C03": "Bounded model checking of ExpressionExecutionEngine::evaluate per operator family and operand-variant shape with fully symbolic payloads (all i64, all f64 bit patterns ...): the solver decides the documented meaning (exact-or-error integer arithmetic, IEEE REAL addition / subtraction, NULL rules, comparisons by value, IS, AND/OR, IN/NOT IN, unary operators, abs, subscripts, INTERVAL cast) for every operand value inside the bound; and of SelectExecutionEngine::execute for one projection: exactly one row, under the projection's name, iff the WHERE value is TRUE. INT vs REAL comparisons are checked against the exact i64 / f64 order over the full range (c03_cmpx_*).",
 "C04": "Bounded model checking of the real per-group fold kernels (GroupAggregator) under the engine's driver protocol: SUM / AVG / BOOL_AND / BOOL_OR over 3 rows with concrete NULL patterns and symbolic values, MIN / MAX through the real kernel fold_min_max (3 rows of INT / REAL incl. NaN / BOOLEAN / INTERVAL / TIMESTAMP / 1-byte TEXT: a value of the group that bounds every non-NULL value), the real update_aggregate Min/Max arm over a one-slot group table (thorough), PERCENTILE over one value and over all-NULL groups, equal the value by definition. Fold level only: the group table, VARIANCE / STDDEV and PERCENTILE over 2+ values are outside the claim.",
 "C06": "One inductive step from an arbitrary engine state, decided by the solver: a non-admitted row reaches no engine, emits nothing and moves no counter on all six dispatch paths (SELECT / aggregate follow / aggregate batch, each with and without JOIN). The admission rule of TableDefinition::extract is decided for tables of two columns (each NULL or DEFAULT, NOT NULL flags symbolic).",
 "C07": "One inductive step of LIMIT accounting from every reachable counter state (n and rows-so-far any u8): never more than n rows, emitted rows are a prefix of the engine's output, reached_limit exactly when n rows are out; final aggregate table cut to n; thorough tier adds the real select engine: a DISTINCT duplicate does not use up the LIMIT (rows x, x, y under LIMIT 2).",
 "C08": "Bounded model checking of the real SelectExecutionEngine::execute with DISTINCT over 2-3 rows of one column (any INT / REAL / BOOL / NULL / 1-byte TEXT): a row is emitted exactly when no earlier row has the same value (NULL = NULL, -0.0 = 0.0, NaN = NaN), surviving rows unchanged; composed with C16's 'equal values hash equally'. Multi-column tuples and the aggregate path are outside the claim.",
 "C09": "Union of CBMC's automatic panic / overflow / bounds / unwrap checks over the evaluator's integer kernels, the aggregate folds with full-range INT inputs, create_timestamp and TIMESTAMP literals under a symbolic time zone, and REAL-to-JSON printing.",
 "C10": "Bounded model checking of the real FollowFileIterator::next over a symbolic growing file: every content of <= 4 bytes x every chunking of the appends x every placement of the reader's polls, decided at once by the solver.",
 "C12": "Bounded model checking of FileExecutor::execute's reading loop (with the real std::io::Lines) over two symbolic files: the engine receives exactly the lines of file 1 then file 2, in order, byte for byte.",
 "C13": "Bounded model checking of the precedence levels the parser consults (Parser::get_token_precedence + the operator table): every pair of operator tokens from two different classes of the statement is ordered as stated, * / and + - share a level. The climbing loop itself (associativity) is outside the claim.",
 "C15": "Bounded model checking: the fold of 3 rows gives the same cell for the arrival order as given, reversed and rotated, for every placement of NULLs tried (concrete patterns) and symbolic values, for SUM / AVG / BOOL_AND / BOOL_OR, and for MIN / MAX through the real kernel fold_min_max over INT / REAL / BOOLEAN / INTERVAL / TIMESTAMP / 1-byte TEXT.",
 "C16": "Bounded model checking of the real Eq/Ord/Hash implementations of Value and Float: every pair / triple of scalar values of every variant combination is decided by the SAT solver for the order / equality / hash laws; counterexamples are replayed natively.",
 "C17": "Bounded model checking of Value::json_value for INT / REAL / BOOLEAN / NULL: the JSON value is recovered exactly (REAL: same f64, non-finite -> null). The record skeleton of OutputPrinter::print (text / CSV) is outside the claim.",
 "C19": "Bounded model checking of FileExecutor::execute with the interrupt arriving after any number k of consumed lines (k symbolic): no line is consumed afterwards, no error, one final aggregate table over exactly the consumed lines.",
}
NOTE = "Bounds, stubs and everything outside the claim are listed per property in registry.py and repeated in the evidence file; trusted: Kani 0.68 / CBMC 6.11 / CaDiCaL, the contract stubs and container / I/O shims named there."

NA = [
 {"property_id": "C05", "reason": "pairing runs through a hashbrown index, per-partner column maps and whole engines; one hash-map operation costs 90-290 s of symbolic execution and the (shimmed) engine does not conclude for two rows (DESIGN.md §0 probes 10-14, §6.2)"},
 {"property_id": "C11", "reason": "both sides of the equation are k-line runs of the aggregate engine (BTreeMap/HashMap state mutated between refreshes), which symbolic execution does not get through (probe 14); the dispatcher-level facts are covered under C06/C07"},
 {"property_id": "C18", "reason": "needs symbolic hash seeds through SipHash and hashbrown probing (a single concrete map operation already costs 90-290 s); what remains is a data-flow argument, i.e. a different technique"},
]
NA_OPTIONAL = {
 "C10": "real FollowFileIterator::next over an I/O shim (symbolic file growing under a symbolic append/poll schedule) was built; CBMC was OOM-killed at 40 GB for a 2-byte file (String growth + symbolic-length copies), also with fixed content and only the schedule symbolic",
 "C12": "real FileExecutor::execute + std::io::Lines over the I/O shim was built; symbolic execution reaches 5.5 M steps in the drop glue of io::Result<String> (io::Error's boxed dyn Error) for every line and does not conclude in 25 min; std::io::Lines::next cannot be stubbed (generic trait impl)",
 "C14": "parsing totality needs the tokenizer / parser on symbolic text; tokenize on 4 symbolic bytes and extract_near on 4 bytes did not conclude in 40 min / 33 GB (DESIGN.md probes 20-21), and the token-level parser harnesses built for C13 explore the recursive-descent parser to the unwinding bound on every token (no verdict in 10 min)",
 "C19": "same harness family as C12 (interrupt after k consumed lines, k symbolic, files fixed): no verdict in 25 min for the same reason",
 "C20": "layout / case / clause-order equivalence is a relation between two tokenizer + parser runs on symbolic text, which does not conclude (probe 21); the token-level parser harnesses do not conclude either",
}

def main():
    only = os.environ.get("VERIF_CLAIM")
    claimed = [p for p in sorted(registry.PROPS) if registry.PROPS[p].get("claimed", True) and (not only or p in only.split(","))]
    checks = []
    for p in claimed:
        checks.append({
            "property_id": p,
            "quick_cmd": "python3 /verif/run.py %s --tier quick" % p,
            "thorough_cmd": "python3 /verif/run.py %s --tier thorough" % p,
            "evidence_file": "/verif/evidence/%s.json" % p,
            "replay_cmd_template": "python3 /verif/run.py --replay {path}",
            "engine": "kani",
            "level_claimed": {"category": "model_checking", "text": TEXT[p], "design_ref": "DESIGN.md §2 %s, §6" % p},
            "level_note": NOTE + " Bounds: " + "; ".join("%s: %s" % kv for kv in registry.PROPS[p].get("bounds", {}).items()),
            "technique": "Kani/CBMC bounded model checking (SAT) of the compiled crate: symbolic payloads per concrete shape, in-crate cfg(kani) harnesses",
        })
    na = list(NA) + [{"property_id": k, "reason": v} for k, v in NA_OPTIONAL.items() if k not in claimed]
    listed = set(claimed) | set(x["property_id"] for x in na)
    for l in open("/verif/properties.jsonl"):
        pid = json.loads(l)["id"]
        if pid not in listed:
            na.append({"property_id": pid, "reason": "harnesses for this property exist under /verif/kani but have not (yet) reached a conclusive verdict within the time and memory budget on the unchanged tree; not claimed until they do"})
    hooks = subprocess.run(["git", "-C", "/repo", "log", "--format=%h %s"], capture_output=True, text=True).stdout.splitlines()
    hook_commits = [l.split()[0] for l in hooks if l.split(" ", 1)[1].startswith("verif hooks")]
    m = {
        "version": 1,
        "setup_cmd": "python3 /verif/run.py --setup",
        "hooks": {"guard": "cfg(kani)",
                  "enable": "cargo kani --manifest-path /repo/Cargo.toml --lib -Z stubbing (cfg(kani) is set only by the Kani compiler; hooks mount /verif/kani/*.rs as child modules and swap std containers / BufReader for the shims in /verif/kani/shim.rs)",
                  "baseline_off_cmd": "cd /repo && cargo test --workspace --no-fail-fast --offline",
                  "source_commits": hook_commits, "add_only": True},
        "engines": [{"name": "kani", "path": "/verif/run.py", "serves_properties": claimed,
                     "kind_free_text": "bounded model checking of the compiled crate: Kani 0.68 -> CBMC 6.11 -> CaDiCaL; in-crate cfg(kani) harnesses under /verif/kani (registry: /verif/registry.py); native replay of counterexamples via kani concrete playback"}],
        "checks": checks,
        "not_applicable": na,
        "notes": "Every check is exit 0 / 1 (VIOLATION) / 2 (inconclusive: time-out, out of memory, unwinding bound too small, vacuous harness - never reported as success). Known genuine defects that are recorded rather than repaired: /verif/known_findings.json.",
    }
    json.dump(m, open("/verif/MANIFEST.json", "w"), indent=1)
    print("claimed:", claimed, "not_applicable:", [x["property_id"] for x in na])

main()

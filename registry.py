"""Registry of the solver checks: property -> harnesses (one Kani proof harness per shape), bounds,
stubs and what is outside each claim.  Read by run.py; the evidence files quote it."""

ROOT = "verif_kani"


def H(name, module, module_path, shape="", tier="quick", timeout=300, env_stubbed=False, **kw):
    d = dict(name=name, module=module, module_path=module_path, shape=shape, tier=tier, timeout=timeout,
             env_stubbed=env_stubbed)
    d.update(kw)
    return d


PROPS = {}

# ------------------------------------------------------------------------------------------- C16
_c16 = []
for v in ["null", "int", "float", "bool", "string", "timestamp", "interval"]:
    _c16.append(H("c16_pair_%s_%s" % (v, v), "c16", ROOT + "::c16", shape="pair %s x %s" % (v, v)))
for v in ["int", "float", "bool", "string", "timestamp", "interval"]:
    _c16.append(H("c16_triple_%s" % v, "c16", ROOT + "::c16", shape="triple %s" % v,
                  tier="quick" if v in ("int", "float", "bool") else "thorough", timeout=900))
_c16 += [
    H("c16_triple_int_float_int", "c16", ROOT + "::c16", shape="triple int,float,int"),
    H("c16_triple_float_int_float", "c16", ROOT + "::c16", shape="triple float,int,float"),
] + [H("c16_cross_%s" % v, "c16", ROOT + "::c16", shape="%s x each of the 6 other scalar variants" % v, timeout=600)
     for v in ["null", "int", "float", "bool", "string", "timestamp", "interval"]] + [
    H("c16_int_float_numeric", "c16", ROOT + "::c16", shape="Int vs Float numeric order"),
    H("c16_tuple_int_float", "c16", ROOT + "::c16", shape="Vec<Value> [Int,Float] pair (group key / DISTINCT tuple)", tier="thorough", timeout=1500),
    H("c16_pair_array1_array1", "c16", ROOT + "::c16", shape="pair Array[Int;1] x Array[Int;1]", tier="thorough", timeout=1500),
]
PROPS["C16"] = dict(
    harnesses=_c16,
    functions=["<Value as PartialEq/PartialOrd/Ord/Hash> (derived, src/model.rs)", "<Float as PartialEq/PartialOrd/Ord/Hash> (src/model.rs)",
               "fnv::FnvHasher (the DISTINCT hasher)", "chrono DateTime/TimeDelta Eq/Ord/Hash as used by Value"],
    bounds={"int": "all i64", "float": "all f64 bit patterns (NaN, +-0, +-inf, subnormals)", "string": "ASCII, length 0..2",
            "timestamp": "|instant| < 2^40 s, any nanosecond, any offset within +-24h", "interval": "|secs| < 2^50, any nanosecond",
            "array": "thorough tier only: INT elements, length 1", "unwind": 4},
    stubs=[],
    assumptions=["std's slice/Vec lexicographic Ord and derive(Ord/Hash) expansion are trusted for nesting deeper than the bound",
                 "consumers (BTreeMap, hashbrown, sort) are correct given a lawful order"],
    outside=["arrays longer than 1 / nested arrays (symbolic execution of the recursive Value glue does not terminate within budget)",
             "strings longer than 2 bytes, non-ASCII", "SipHash (RandomState) itself: equal byte streams are shown instead, which implies equal hashes for every Hasher"],
)

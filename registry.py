"""Registry of the solver checks: property -> harnesses (one Kani proof harness per shape), bounds,
stubs and what is outside each claim.  Read by run.py; the evidence files quote it."""

ROOT = "verif_kani"


def H(name, module, module_path, shape="", tier="quick", timeout=300, env_stubbed=False, **kw):
    d = dict(name=name, module=module, module_path=module_path, shape=shape, tier=tier, timeout=timeout,
             env_stubbed=env_stubbed)
    d.update(kw)
    return d


PROPS = {}
AG = "execution::aggregate_execution::verif_kani"

# ------------------------------------------------------------------------------------------- C16
_c16 = []
for v in ["null", "int", "float", "bool", "string", "timestamp", "interval"]:
    _c16.append(H("c16_pair_%s_%s" % (v, v), "c16", ROOT + "::c16", shape="pair %s x %s" % (v, v)))
for v in ["int", "float", "bool", "string", "timestamp", "interval"]:
    _c16.append(H("c16_triple_%s" % v, "c16", ROOT + "::c16", shape="triple %s" % v,
                  tier="quick" if v in ("int", "float", "bool") else "thorough", timeout=900))
_c16 += [
    H("c16_triple_int_float_int", "c16", ROOT + "::c16", shape="triple int,float,int"),
    H("c16_triple_float_int_float", "c16", ROOT + "::c16", shape="triple float,int,float"),
] + [H("c16_cross_%s" % v, "c16", ROOT + "::c16", shape="%s x each of the 6 other scalar variants" % v, timeout=600)
     for v in ["null", "int", "float", "bool", "string", "timestamp", "interval"]] + [
    H("c16_int_float_numeric", "c16", ROOT + "::c16", shape="Int vs Float numeric order"),
    H("c16_tuple2_null_int", "c16", ROOT + "::c16", shape="Vec<Value> tuples [NULL, Int] (stack-held elements): group key / DISTINCT row", timeout=900, cost=100),
    H("c16_tuple2_int_float", "c16", ROOT + "::c16", shape="Vec<Value> tuples [Int, Float] (stack-held elements)", tier="thorough", timeout=1800, cost=900),
    # not registered (kept in kani/c16.rs): c16_tuple_int_float (Vec<Value> pair: no verdict in 1500 s) and
    # c16_pair_array1_array1 (its unwinding assertion fails at unwind 4; at unwind 6 no verdict in 1500 s)
]
PROPS["C16"] = dict(
    harnesses=_c16,
    functions=["<Value as PartialEq/PartialOrd/Ord/Hash> (derived, src/model.rs)", "<Float as PartialEq/PartialOrd/Ord/Hash> (src/model.rs)",
               "fnv::FnvHasher (the DISTINCT hasher)", "chrono DateTime/TimeDelta Eq/Ord/Hash as used by Value"],
    bounds={"int": "all i64", "float": "all f64 bit patterns (NaN, +-0, +-inf, subnormals)", "string": "ASCII, length 0..2",
            "timestamp": "|instant| < 2^40 s, any nanosecond, any offset within +-24h", "interval": "|secs| < 2^50, any nanosecond",
            "unwind": 4},
    stubs=[],
    assumptions=["std's slice/Vec lexicographic Ord and derive(Ord/Hash) expansion are trusted for nesting deeper than the bound",
                 "consumers (BTreeMap, hashbrown, sort) are correct given a lawful order"],
    outside=["ARRAY values (symbolic execution of the recursive Value glue does not terminate within budget, also with stack-held elements) and tuples other than [NULL, Int] / [Int, Float]: element-wise laws are shown, their lifting to slices by std's lexicographic Ord/Eq/Hash is assumed beyond those two shapes",
             "strings longer than 2 bytes, non-ASCII", "SipHash (RandomState) itself: equal byte streams are shown instead, which implies equal hashes for every Hasher"],
)

# ------------------------------------------------------------------------------------------- C03
EX = "execution::verif_kani"
_EVAL_STUBS = ["<Value as Clone>::clone -> scalar-only clone (arrays excluded by assumption; the subscript harnesses use a one-level array clone): the derived clone itself is not what these harnesses decide, and CBMC walks its recursive Array arm on every call",
               "<Value as Display>::fmt -> writes nothing", "chrono::NaiveDateTime::parse_from_str -> arbitrary Ok | Err",
               "regex::Regex::new -> Err (regex engine is environment; Ok path of regexp_matches outside the claim)",
               "chrono::Local::now -> arbitrary instant", "<Local as TimeZone>::offset_from_local_datetime -> arbitrary None|Single|Ambiguous",
               "<Local as TimeZone>::offset_from_utc_datetime -> arbitrary offset", "alloc::fmt::format -> empty string (error texts are not the subject)"]


def _names(prefix, items):
    return [prefix + i for i in items]


_c03_quick = set(_names("c03_arith_", ["add_int_int", "sub_int_int", "add_float_float", "null_int", "int_null", "int_float", "bool_bool"]) +
                 _names("c03_cmp_", ["int_null_gt_le"]) +
                 _names("c03_is_", ["null_null", "int_null"]) +
                 _names("c03_bool_", ["bool_bool", "bool_null"]) +
                 ["c03_unary_neg_int", "c03_unary_bool", "c03_unary_null"] +
                 _names("c03_in_", ["int_int", "null_int", "int_null"]) +
                 ["c03_fn_abs_int", "c03_case_bool", "c03_cast_int_int", "c03_cast_int_float"] + _names("c03_select_filter_", ["bool", "null", "int"]))

_c03_all = (_names("c03_arith_", ["add_int_int", "sub_int_int", "mul_int_int", "div_int_int", "add_float_float", "sub_float_float",
                                  "null_null", "null_int", "int_null", "null_float", "float_null", "null_string", "bool_null", "null_timestamp", "interval_null",
                                  "int_float", "float_int", "int_bool", "bool_bool", "string_string", "string_int", "int_string", "float_bool", "int_interval", "timestamp_int"]) +
            _names("c03_cmp_", ['int_int_eq_ne', 'int_int_gt_ge', 'int_int_lt_le', 'float_float_eq_ne', 'float_float_gt_ge', 'float_float_lt_le', 'bool_bool_eq_lt', 'string1_string1_eq_lt', 'string1_string1_ne_ge', 'string0_string1_gt_le', 'interval_interval_ne_gt', 'null_null_eq_ne', 'null_int_eq_ne', 'null_int_lt_ge', 'int_null_eq_ne', 'int_null_gt_le', 'float_null_ne_ge', 'null_string_ne_lt', 'bool_null_ne_gt', 'timestamp_null_ne_ge', 'int_float_gt_lt', 'float_int_gt_eq', 'int_bool_eq_lt']) +
            _names("c03_is_", ["null_null", "int_null", "null_int", "float_null", "string_null", "bool_null", "timestamp_null", "interval_null", "int_int", "bool_bool", "string_string"]) +
            _names("c03_bool_", ["bool_bool", "bool_null", "null_bool", "null_null", "int_bool", "bool_string"]) +
            ["c03_unary_neg_int"] + _names("c03_unary_", ["null", "float", "bool", "string", "int", "interval"]) +
            _names("c03_in_", ["int_int", "null_int", "int_null", "null_null", "float_float", "string_string", "bool_bool"]) +
            _names("c03_subscript_", ["len0", "len1", "int_int", "null_int", "string_int", "array_null", "array_float", "array_string"]) +
            _names("c03_fn_", ["abs_int", "abs_other", "wrong_arity_or_type"]) +
            ["c03_cast_interval"] +
            _names("c03_select_filter_", ["bool", "null", "int"]) +
            _names("c03_case_", ["bool", "null", "int"]) + _names("c03_fn_array_length_", ["0", "1"]) +
            _names("c03_cast_", ["int_int", "bool_bool", "float_float", "int_bool", "int_float", "bool_int", "null_int"]))

_C03_COST = {"c03_cmp_int_null_gt_le": 400, "c03_subscript_len1": 350, "c03_subscript_len0": 300, "c03_arith_div_int_int": 400, "c03_arith_mul_int_int": 400, "c03_arith_add_float_float": 160, "c03_arith_sub_float_float": 160,
             "c03_arith_mul_float_float": 300, "c03_arith_div_float_float": 400, "c03_fn_abs_int": 120}

PROPS["C03"] = dict(
    harnesses=[H(n, "execution", EX, shape=n[4:].replace("_", " "), tier="quick" if n in _c03_quick else "thorough", timeout=900, cost=_C03_COST.get(n, 60), solo=(n == "c03_subscript_len1")) for n in _c03_all] + [
        H("c03_cmpx_int_float_eq", "aggregate_execution", AG, shape="INT = REAL against the exact i64 / f64 order, full range", tier="quick", timeout=900, cost=300, env_stubbed=True),
        H("c03_cmpx_float_int_gt", "aggregate_execution", AG, shape="REAL > INT against the exact i64 / f64 order, full range", tier="thorough", timeout=900, cost=300, env_stubbed=True),
        H("c03_cmpx_int_float_lt", "aggregate_execution", AG, shape="INT < REAL against the exact i64 / f64 order, full range", tier="thorough", timeout=900, cost=300, env_stubbed=True)],
    functions=["ExpressionExecutionEngine::evaluate (src/execution/expression_execution.rs: Compare, NullableCompare, Arithmetic, UnaryArithmetic, BooleanOperation, In, Case, ArrayElementAccess, TypeConversion, FunctionCall abs/greatest/least/pow/array_length)",
               "Value::map_same_type / Value::map (src/model.rs)", "derived Value ordering as used by Compare",
               "SelectExecutionEngine::execute (src/execution/select_execution.rs): WHERE -> projection -> row assembly (c03_select_filter_*)"],
    bounds={"operands": "all i64 / all f64 bit patterns / bool / ASCII strings of length <= 2 / instants |t| < 2^40 s any offset / intervals < 2^40 s",
            "division and multiplication": "divisor / multiplier restricted to -16..=16 (64-bit divider circuits do not finish); dividend / multiplicand full range",
            "operators": "symbolic within each family (4 arithmetic, 6 comparison, IS/IS NOT, AND/OR, IN/NOT IN)",
            "lists": "IN lists and CASE (one WHEN clause + ELSE) with exactly 1 entry, arrays of length 0..1, strings of length 0..1, functions of one argument (every loop of the evaluator may run once: unwind 2; unwind 3 does not conclude in 15 min)",
            "nesting": "one operator over arbitrary operand values",
            "select engine": "one projection (a column), WHERE condition a column holding any BOOL / NULL / any INT, no DISTINCT"},
    stubs=_EVAL_STUBS,
    assumptions=["operand values reach evaluate through a harness ColumnProvider keyed by scope (column-name binding through hash maps is outside the claim)",
                 "each operator is checked over arbitrary operand values, which is what deeper nesting can produce; error propagation through >1 level is not unrolled"],
    outside=["column-name binding (HashMap providers), SELECT * expansion, the naming rule for unaliased projections (parser_tree_converter), two or more projections (the projection loop needs a second iteration)",
             "regexp_matches, upper/lower, array_unique (BTreeSet), sqrt/pow on REAL (CBMC's float transcendental models are not bit-precise), EXTRACT / date_trunc (chrono calendar code)",
             "timestamp <-> string coercion in comparisons (chrono's format parser)", "functions of two or more arguments (greatest, least, pow, array_cat/append/prepend, make_timestamp): the argument loop needs a second iteration",
             "IN lists with two or more entries, strings longer than 1 byte",
             "REAL * REAL and REAL / REAL with both operands symbolic (c03_arith_mul_float_float / div_float_float, kept in the harness file: the 64-bit float multiplier / divider circuits give no verdict in 900 s), TIMESTAMP vs TIMESTAMP comparison (c03_cmp_timestamp_timestamp_eq_lt: no verdict in 900 s)",
             "arrays longer than 1 element in subscripts (one-level array clone stub, unwind 2)",
             "casts from or to TEXT (string parsing / Display), INTERVAL::real; CASE with two or more WHEN clauses; timestamp comparisons (c03_cmp_timestamp_*: no verdict in 900 s)"],
)

# ------------------------------------------------------------------------------------- C04 / C15
_fold = []
for _k, _label in [("sum_int", "SUM over INT"), ("sum_float", "SUM over REAL"), ("avg_int", "AVG over INT"), ("avg_float", "AVG over REAL")]:
    for _pat, _pl in [("vvv", "no NULL"), ("nvv", "NULL arrives first"), ("vnv", "NULL in the middle"), ("nnn", "all NULL")]:
        _quick = _k.endswith("_int") and _pat in ("vvv", "nvv")
        if _k.endswith("_float") and _pat == "vvv":
            continue    # three symbolic REAL additions in three arrival orders: no verdict in 900 s on a loaded machine (kept in the harness file)
        _fold.append(("c04_fold_%s_%s" % (_k, _pat), "%s, 3 rows, %s" % (_label, _pl), "quick" if _quick else "thorough"))
for _k in ["bool_and", "bool_or"]:
    for _pat, _pl in [("vvv", "no NULL"), ("nvv", "NULL arrives first"), ("nnn", "all NULL")]:
        _fold.append(("c04_fold_%s_%s" % (_k, _pat), "%s, 3 rows, %s" % (_k.upper(), _pl), "quick" if _pat == "nvv" else "thorough"))
_fold += [("c04_fold_percentile_n1", "PERCENTILE(p) over 1 INT, every p in [0,1]", "quick"), ("c04_fold_percentile_all_null", "PERCENTILE over an all-NULL group", "quick")]
# MIN / MAX through the real kernel fold_min_max (added with fix a2b5154)
_minmax = []
_MINMAX_QUICK = ("c04_minmax_min_int_vvv", "c04_minmax_max_int_nvv", "c04_minmax_max_bool_vnv", "c04_minmax_min_timestamp_vvv", "c04_minmax_max_text1_vvv", "c04_minmax_min_float_vvv", "c04_minmax_min_int_nnn", "c04_minmax_max_interval_vvv")
for _t, _tl in [("int", "INT (any i64)"), ("float", "REAL (any f64 incl. NaN, -0.0, infinities)"), ("bool", "BOOLEAN"), ("timestamp", "TIMESTAMP (any instant within 2^40 s of the epoch, any offset)"), ("interval", "INTERVAL"), ("text1", "TEXT of 0..1 ASCII bytes")]:
    for _m in ("min", "max"):
        for _pat, _pl in [("vvv", "no NULL"), ("nvv", "NULL arrives first"), ("vnv", "NULL in the middle"), ("nnn", "all NULL")]:
            _n = "c04_minmax_%s_%s_%s" % (_m, _t, _pat)
            _minmax.append((_n, "%s over %s, 3 rows, %s" % (_m.upper(), _tl, _pl), "quick" if _n in _MINMAX_QUICK else "thorough"))
# the real update_aggregate driver over the one-slot group table (added against seeded change C04-m3)
_driver = [("c04_driver_min_int_null_last", "real update_aggregate (Min/Max arm): MIN over INT a, b and one NULL row arriving last", "thorough")]
# not registered (kept in the harness file): the other c04_driver_* harnesses - SUM / AVG through the shared arm passed 6.5 GB / 600 s without a verdict
_C15_QUICK = ("c04_fold_sum_int_nvv", "c04_fold_avg_int_vvv", "c04_fold_bool_and_nvv")
_FOLD_FUNCS = ["GroupAggregator::default / update / update_value / is_null (src/execution/aggregate_execution.rs)",
               "Value::modify_same_type_numeric_nullable, Value::map_numeric, Value::default_value (src/model.rs)", "slice sort of Vec<Value> (PERCENTILE)",
               "fold_min_max (src/execution/aggregate_execution.rs; the MIN / MAX kernel) with the derived Value ordering it uses (c04_minmax_*)",
               "AggregateExecutionEngine::update_aggregate, Min/Max arm and shared SUM/AVG/STDDEV/PERCENTILE/BOOL arm, with ExpressionExecutionEngine::evaluate of the argument (c04_driver_*)"]
_FOLD_BOUNDS = {"group": "3 rows; NULL pattern concrete per harness (no NULL / NULL first / NULL in the middle / all NULL; REAL arguments: at least one NULL among the 3 rows), values symbolic", "INT / REAL values": "integers with |x| <= 2^20 (every sum and square exact in i64 and f64); overflow harnesses: full i64",
                "percentile p": "every f64 in [0, 1]", "orders": "arrival order as given, reversed and rotated", "unwind": "2 (PERCENTILE: 4)",
                "MIN / MAX (c04_minmax_*)": "3 rows of one type, NULL pattern concrete; INT any i64, REAL any f64 (NaN, -0.0, infinities), BOOLEAN, INTERVAL |t| < 2^50 s, TEXT of 0..1 ASCII bytes, TIMESTAMP any instant within 2^40 s of the epoch with any offset (oracle: chrono's DateTime order)",
                "real driver (c04_driver_*)": "one group, one aggregate; rows: INT a, INT b (|x| <= 2^20) and one NULL row, in the orders a b NULL / NULL a b / a NULL b"}
_FOLD_ASSUME = ["driver protocol copied from update_aggregate / execute_result: aggregator created lazily from the first arriving value, update() only for non-NULL values, NULL sets the cell only while is_null(), update_value() before a table is shown",
                "the group table around the fold (BTreeMap<GroupKey, HashMap<usize,_>>, column-wise result assembly, HAVING) is outside the claim: symbolic execution of the engine does not conclude for two rows (DESIGN.md probe 14)"]
_FOLD_ASSUME.append("c04_driver_*: AggregateExecutionEngine::get_group_value / get_group_aggregator are stubbed to hand out the single slot of the single group (created by the caller's default closure on first use, as get_group does); execute_result's update_value() step is applied as in the fold harnesses")
_FOLD_OUT = ["VARIANCE / STDDEV and PERCENTILE over 2+ values: their harnesses (c04_fold_variance_*, c04_fold_percentile_n2/n3, kept in /verif/kani/aggregate_execution.rs) do not conclude in 15 min even with the accumulators as the only assertion and std's sort stubbed",
             "one row per group / group order / no cell from another group (group table)", "COUNT, COUNT(DISTINCT), ARRAY_AGG, STRING_AGG (folded inline in the engine or through HashSet); MIN / MAX over values of different types in one group",
             "STDDEV's final sqrt (VARIANCE is checked; the flag only selects sqrt)", "groups of more than 3 rows", "HAVING, transform wrappers"]
PROPS["C04"] = dict(
    harnesses=[H(n, "aggregate_execution", AG, shape=sh, tier=t, timeout=900, cost=120) for (n, sh, t) in _fold] +
              [H(n, "aggregate_execution", AG, shape=sh, tier=t, timeout=600, cost=40) for (n, sh, t) in _minmax] +
              [H(n, "aggregate_execution", AG, shape=sh, tier=t, timeout=900, cost=100, env_stubbed=True) for (n, sh, t) in _driver],
    functions=_FOLD_FUNCS, bounds=_FOLD_BOUNDS, stubs=["alloc::fmt::format -> empty string", "<Value as Clone>::clone -> the same code restricted to the seven scalar variants (no array operand)", "chrono::Local::now / offset lookups -> fixed offset (never reached by these folds; avoids a compiler ICE)",
           "c04_driver_* only: AggregateExecutionEngine::get_group_value / get_group_aggregator -> the one slot of the one group; regex::Regex::new -> Err, NaiveDateTime::parse_from_str, <Value as Display>::fmt (not reached)"], assumptions=_FOLD_ASSUME, outside=_FOLD_OUT)
PROPS["C15"] = dict(
    harnesses=[H(n, "aggregate_execution", AG, shape=sh + " (as given, reversed and rotated arrival order)", tier="quick" if n in _C15_QUICK else "thorough", timeout=900, cost=120) for (n, sh, t) in _fold
               if n not in ("c04_fold_percentile_n1", "c04_fold_percentile_all_null")] +
              [H(n, "aggregate_execution", AG, shape=sh + " (as given, reversed and rotated arrival order)", tier=t, timeout=600, cost=40) for (n, sh, t) in _minmax] +
              [H(n, "aggregate_execution", AG, shape=sh, tier=t, timeout=900, cost=100, env_stubbed=True) for (n, sh, t) in _driver],
    functions=_FOLD_FUNCS, bounds=_FOLD_BOUNDS, stubs=["alloc::fmt::format -> empty string", "<Value as Clone>::clone -> the same code restricted to the seven scalar variants (no array operand)", "chrono::Local::now / offset lookups -> fixed offset (never reached by these folds; avoids a compiler ICE)",
           "c04_driver_* only: AggregateExecutionEngine::get_group_value / get_group_aggregator -> the one slot of the one group; regex::Regex::new -> Err, NaiveDateTime::parse_from_str, <Value as Display>::fmt (not reached)"], assumptions=_FOLD_ASSUME,
    outside=_FOLD_OUT + ["split / concatenation law and the union of group sets (group table)", "COUNT (inline in update_aggregate)"])

# ------------------------------------------------------------------------------------- C06 / C07
EE = "execution::execution_engine::verif_kani"
_ENGINE_STUBS = ["Tables::get -> a fixed table definition", "TableDefinition::extract -> admitted row (one non-NULL column) or non-admitted row (0..2 NULL columns), chosen by the harness",
                 "SelectExecutionEngine::execute / AggregateExecutionEngine::execute / execute_update / execute_result / join::execute_join -> contract stubs: record that the engine was reached, return 0..3 rows (each NULL-only or not)",
                 "ExecutionEngine::create_columns_mapping, HashMapColumnProvider::create_table_scope -> empty maps (and record the call)", "std::hash::RandomState::new -> fixed keys", "regex::Regex::new -> Err", "alloc::fmt::format -> empty string"]
PROPS["C06"] = dict(
    harnesses=[H(n, "execution_engine", EE, shape=sh, timeout=600, env_stubbed=True, cost=60) for (n, sh) in [
        ("c06_noise_select", "SELECT, no join"), ("c06_noise_select_join", "SELECT with joined table"),
        ("c06_noise_aggregate_follow", "aggregate, update+result (follow mode)"), ("c06_noise_aggregate_follow_join", "aggregate follow mode with joined table"),
        ("c06_noise_aggregate_batch", "aggregate, update-only (batch mode)"), ("c06_noise_aggregate_batch_join", "aggregate batch mode with joined table"),
        ("c06_admitted_reaches_engine", "liveness of the stubs: an admitted line reaches the select engine")]] + [
        H(n, "data_model", "data_model::verif_kani", shape=sh, timeout=900, cost=100) for (n, sh) in [
        ("c06_admit_both_values", "admission rule: two INT columns, both obtain a value; NOT NULL flags symbolic"), ("c06_admit_first_null", "admission rule: first column NULL, second a value"),
        ("c06_admit_second_null", "admission rule: first a value, second NULL"), ("c06_admit_both_null", "admission rule: both NULL")]],
    functions=["ExecutionEngine::execute, execute_select, execute_aggregate, execute_aggregate_update, update_limit (src/execution/execution_engine.rs)", "Row::any_result (src/data_model.rs)",
               "TableDefinition::extract, ParsingInput::new, ColumnParsing::extract (src/data_model.rs): the admission rule (c06_admit_*)"],
    bounds={"non-admitted row": "0..1 columns, all NULL", "engine state": "arbitrary LIMIT counter (u8), LIMIT absent or any u8, DISTINCT / OUTER flags symbolic", "step": "one line from an arbitrary state (inductive step: a line without trace leaves every later step's pre-state unchanged)",
            "admission rule": "tables of two INT columns without patterns; each column obtains its DEFAULT (any i64) or NULL (concrete per harness), NOT NULL flags symbolic; unwind 3"},
    stubs=_ENGINE_STUBS,
    assumptions=["one inductive step covers insertion/deletion of noise lines at any position: stated as an argument, not separately checked",
                 "what extract() returns for concrete noise text (regex matching) is environment"],
    outside=["the admission rule for tables of three or more columns, columns fed by patterns (a value from a regex group instead of a DEFAULT), TRIM; the heap-container variants (c06_admission_*, kept in the harness file) do not conclude in 25 min",
             "FileExecutor statistics counters, follow mode's screen clearing", "the joined-file loader (same execute path through SELECT *)"])
PROPS["C07"] = dict(
    harnesses=[H(n, "execution_engine", EE, shape=sh, timeout=600, env_stubbed=True, cost=60) for (n, sh) in [
        ("c07_limit_step_select", "SELECT LIMIT n>=1, <=1 row per line, rows with a non-NULL column"),
        ("c07_limit_step_select_nullonly", "SELECT LIMIT n>=1, rows may consist of NULLs only"),
        ("c07_limit_step_select_zero", "SELECT LIMIT n>=0 (includes LIMIT 0)"),
        ("c07_limit_step_join", "SELECT .. JOIN LIMIT n>=1, <=1 row per line"),
        ("c07_no_limit_step", "no LIMIT"), ("c07_aggregate_result_truncated", "batch aggregate: final table cut to n rows")]] + [
        H("c07_select_distinct3_limit2", "execution", EX, shape="real SelectExecutionEngine, DISTINCT LIMIT 2, rows x, x, y", tier="thorough", timeout=1800, env_stubbed=True, cost=900)],   # 800-900 s: thorough tier only
    functions=["ExecutionEngine::execute (Select arm, aggregate_result arm), update_limit (src/execution/execution_engine.rs)",
               "SelectExecutionEngine::execute + DistinctValues::add (src/execution/select_execution.rs, helpers.rs): a duplicate does not use up the LIMIT (c07_select_distinct3_limit2, thorough tier only)"],
    bounds={"n": "any u8", "rows handed out before": "any count allowed by the protocol (< n, or 0 for n = 0)", "rows per line": "0..1, each NULL-only or not (join fan-out of 2+ rows per line needs unwind 3+, which does not conclude: outside the bound); final aggregate table: 0..2 rows", "step": "one line from an arbitrary reachable LIMIT state (inductive)"},
    stubs=_ENGINE_STUBS,
    assumptions=["the executor offers another line only while reached_limit has not been reported (FileExecutor / FollowFileExecutor loops: see C12 when registered)",
                 "the engines below the dispatcher return an arbitrary 0..3 rows per line (contract stub)"],
    outside=["'consumes no input beyond the n-th row' at the file level: FileExecutor's break leaves only the current file's loop (multi-file runs) and LIMIT 0 still reads one line",
             "aggregate statements in follow mode (table refreshed per line)",
             "DISTINCT + LIMIT inside SelectExecutionEngine beyond the one scenario decided (three rows x, x, y of one INT column under LIMIT 2); HAVING + LIMIT inside AggregateExecutionEngine::execute_result (BTreeMap group table: not reachable)"])

# ------------------------------------------------------------------------------------------- C08
PROPS["C08"] = dict(
    harnesses=[H("c08_select_distinct2_%s" % v, "execution", EX, shape="2 rows x 1 column, both %s" % v.upper(), timeout=900, env_stubbed=True, cost=200,
                 tier="quick" if v in ("int", "null", "float") else "thorough") for v in ["int", "null", "float", "bool", "string"]] +
              [H("c08_select_distinct3_int", "execution", EX, shape="3 rows x, x, y of one INT column", tier="thorough", timeout=1800, env_stubbed=True, cost=900)],
    functions=["SelectExecutionEngine::execute (src/execution/select_execution.rs): projection -> DISTINCT consultation -> row", "DistinctValues::new / add (src/execution/helpers.rs)",
               "derived Value / Vec<Value> equality as used by the set", "ExpressionExecutionEngine::evaluate (column access arm)"],
    bounds={"rows": "2 (any two values of one variant) or 3 (x, x, y)", "columns": "1 projection", "column values": "any INT / any REAL bit pattern / NULL / BOOL / ASCII string of length 1",
            "set": "Vec-backed shim of FnvHashSet: membership by ==; that equal values hash equally is decided in C16", "unwind": 2},
    stubs=_EVAL_STUBS + ["fnv::FnvHashSet -> /verif/kani/shim.rs HashSet (contract: insert/contains by ==)"],
    assumptions=["hashbrown's correctness given Eq/Hash-consistent keys (trusted base)", "rows reach the engine through a harness ColumnProvider keyed by scope"],
    outside=["tuples of two or more columns (the projection loop and the slice comparison need a second iteration: unwind 3 does not conclude) - so a fingerprint that only collides across columns is not seen",
             "the aggregate path (DISTINCT consulted only inside `if let Some(having)`, its memory surviving refreshes): BTreeMap group table, not reachable",
             "more than one stored tuple in the set (the membership scan needs a second iteration)", "DistinctValues alone over 3 tuples x 1..2 columns (c08_distinct_one_column / two_columns, kept in the harness file: no verdict in 15 min)"])

# ------------------------------------------------------------------------------------------- C13
PA = "parsing::parser::verif_kani"
PROPS["C13"] = dict(
    harnesses=[H(n, "parser", PA, shape=sh, timeout=900, cost=c) for (n, sh, c) in [
        ("c13_prec_postfix_mul", "every of :: [ . vs every of * /", 60), ("c13_prec_mul_add", "* / vs + -", 60), ("c13_prec_add_cmp", "+ - vs the 10 comparison tokens", 60),
        ("c13_prec_cmp_and", "comparison tokens vs AND", 60), ("c13_prec_and_or", "AND vs OR", 60), ("c13_prec_mul_cmp", "* / vs comparison tokens", 60),
        ("c13_prec_add_and", "+ - vs AND", 60), ("c13_prec_cmp_or", "comparison tokens vs OR", 60), ("c13_prec_same_level", "* = / and + = -", 60),
]],
    functions=["Parser::get_token_precedence, BinaryOperators::new (src/parsing/parser.rs, operator.rs)", "Parser::parse_expression -> parse_unary_operator / parse_binary_operator_rhs / parse_primary_expression on token sequences"],
    bounds={"precedence levels": "all pairs of operator tokens of two different classes (class membership symbolic)", "chains": "none: the precedence-climbing harnesses (c13_climb_*, kept in /verif/kani/parser.rs) explore the recursive-descent parser to the unwinding bound on every token and do not conclude in 10 min"},
    stubs=["std HashMap/HashSet of parsing/operator.rs -> /verif/kani/shim.rs", "alloc::fmt::format -> empty string"],
    assumptions=["operators inside one class (e.g. = vs <) are not ordered by the check: the statement names them as one level"],
    outside=["the climbing algorithm itself (associativity, `+ 1` in the recursive call): decided only for the precedence levels it consults",
             "the tokenizer (=- and -- fusion), NOT / unary minus placement, IN with a one-element list, parenthesised operands"])

# ------------------------------------------------------------------------------------- C01 / C02
DM = "data_model::verif_kani"
_DM_STUBS = ["ParsingInput built directly by the harness = the environment's answer: pattern matched or not, 1..3 split fields with symbolic bytes, or a constructed JSON document (regex engine and serde_json parser are environment)",
             "std HashMap of data_model.rs -> /verif/kani/shim.rs", "regex::Regex::new -> Err (never reached: tables have no patterns)", "chrono Local time-zone lookups -> arbitrary answers", "alloc::fmt::format -> empty string"]
_c01 = [("c01_int_field_default", "INT DEFAULT d on split field 1: pattern matched, field present", "quick"), ("c01_int_field_nodefault", "INT on split field 1: matched, field present", "quick"),
        ("c01_int_nofield_default", "INT DEFAULT d: matched, field absent", "quick"), ("c01_int_nofield_nodefault", "INT: matched, field absent", "thorough"),
        ("c01_int_unmatched_default", "INT DEFAULT d: pattern did not match", "quick"), ("c01_int_unmatched_nodefault", "INT: pattern did not match", "thorough"),
        ("c01_bool_field", "BOOLEAN on a present field", "quick"), ("c01_bool_nofield", "BOOLEAN on an absent field", "quick"),
        ("c01_text_field1_of_2", "TEXT on field 1 of two symbolic fields", "quick"), ("c01_text_field2_of_2", "TEXT on field 2 of two symbolic fields", "thorough"),
        ("c01_int_field1_of_2", "INT on field 1 of two symbolic fields", "thorough"), ("c01_int_field2_of_2", "INT on field 2 of two symbolic fields", "quick"),
        ("c01_array1_field", "INT[] from one listed group, field present", "quick"), ("c01_array1_nofield", "INT[] from one listed group, field absent", "thorough")]
PROPS["C01"] = dict(
    harnesses=[H(n, "data_model", DM, shape=sh, tier=t, timeout=600, cost=30) for (n, sh, t) in _c01],
    functions=["ColumnParsing::extract (Regex and MultiRegex-array arms), ColumnParsing::extract_using_regex (Split arm), ColumnDefinition::default_value (src/data_model.rs)", "ValueType::parse INT / TEXT arms (src/model.rs), i64::from_str"],
    bounds={"fields": "0..1 bytes over {0-9, -, +, space, x} (unwind 2: the digit loop of i64::from_str may run once)", "split result": "1..3 entries (count concrete per harness)", "column": "one column: INT / BOOLEAN / TEXT / INT[] of one group; DEFAULT any i64 or absent",
            "shape": "pattern matched or not, field present or not, DEFAULT present or not: concrete per harness; field bytes and DEFAULT value symbolic"},
    stubs=_DM_STUBS + ["every container the code only reads (split fields, the pattern->result map, the group list) has its buffer in a stack array (shim::HashMap::from_raw_entries, Vec::from_raw_parts)"],
    assumptions=["the Captures arm of extract_using_regex is a textual twin of the Split arm and is not executed (regex::Captures has no public constructor)",
                 "what the regex engine hands over (leftmost match, group numbering, split) is environment: the harness plays it"],
    outside=["the regex engine (leftmost match, group numbering, split)", "REAL / TIMESTAMP / INTERVAL literal parsing, TRIM, timestamp assembly from parts (see C09 for create_timestamp)", "CREATE TABLE parsing",
             "fields longer than 1 byte (multi-digit and signed literals, numeric extremes): with unwind 4 the drop glue of Value is unrolled 4 levels at every drop site and the harness does not conclude in 25 min",
             "array columns of two or more groups (the group loop needs a second iteration)", "several patterns per table", "the heap-container variants of these harnesses (c01_split_*, kept in the harness file) do not conclude"])
_c02 = [('c02_int_from_i64', 'quick'), ('c02_int_from_u64', 'quick'), ('c02_int_from_f64_default', 'quick'), ('c02_int_from_null_default', 'quick'), ('c02_int_from_bool', 'thorough'), ('c02_int_from_string_default', 'thorough'), ('c02_real_from_i64', 'thorough'), ('c02_real_from_u64', 'quick'), ('c02_real_from_f64', 'quick'), ('c02_real_from_null_default', 'thorough'), ('c02_real_from_string', 'thorough'), ('c02_bool_from_bool', 'quick'), ('c02_bool_from_i64_default', 'thorough'), ('c02_bool_from_null', 'thorough'), ('c02_text_from_string', 'quick'), ('c02_text_from_i64_default', 'quick'), ('c02_text_from_null_default', 'thorough'), ('c02_nested_int_from_i64', 'quick'), ('c02_nested_int_from_null', 'thorough')]
PROPS["C02"] = dict(
    harnesses=[H(n, "data_model", DM, shape=n[4:].replace("_", " ") + ("; path {[i]} on [leaf, \"\"], i in 0..=2" if "nested" not in n else "; path {[i0][i1]} on [[leaf, true], 5]"), tier=t, timeout=600, cost=40) for (n, t) in _c02],
    functions=["ColumnParsing::extract Json arm, JsonAccess::get_value (Array steps, recursion) (src/data_model.rs)", "ValueType::convert_from_json, serde_json::Value::as_i64 / as_f64 / as_bool / as_str / as_array (src/model.rs, serde_json)"],
    bounds={"document": "JSON arrays of depth <= 2 with 2 elements, built by the harness (stack-backed); leaf kind concrete per harness: null | bool | any i64 | any u64 | any finite f64 | empty string; payload symbolic",
            "index": "0..=2 per step (symbolic): the leaf, another element, absent", "column": "INT / REAL / BOOLEAN / TEXT, DEFAULT present or not (concrete per harness)", "unwind": 2},
    stubs=_DM_STUBS + ["the JSON document and the column's path are stack-backed (Vec::from_raw_parts / Box::from_raw over stack objects)"],
    assumptions=["serde_json::from_str hands over the document the text denotes (the JSON parser is environment)"],
    outside=["serde_json::from_str (the JSON parser: duplicate keys, numbers beyond f64, invalid JSON)", "object field steps: serde_json's Map is an IndexMap over hashbrown - so an index step meeting an object is not seen",
             "CONVERT (string -> typed literal parsing)", "independence from regex columns of the same table", "non-empty strings, array-typed columns", "JsonAccess::from_linear (path construction; the harness builds the nested path directly)"])

# ------------------------------------------------------------------------------- C10 / C12 / C19
_IO_STUBS = ["std::io::BufReader -> /verif/kani/shim.rs io::BufReader: a window on a symbolic file (content bytes, read position, visible length that each read may advance, read budget); read_line implements the documented BufRead::read_line contract",
             "alloc::fmt::format -> empty string"]
PROPS["C10"] = dict(
    claimed=False,
    harnesses=[H("c10_follow_schedule_len2", "helpers", "helpers::verif_kani", shape="content a\\n fixed, every append/poll schedule", timeout=900, cost=300),
               H("c10_follow_schedule_len4", "helpers", "helpers::verif_kani", shape="content a\\nb\\n fixed, every append/poll schedule", timeout=1500, cost=600),
               H("c10_follow_len2", "helpers", "helpers::verif_kani", shape="file of 2 bytes over {a,b,\\n}, arbitrary append/poll interleaving, <= 4 reads", timeout=900, cost=300),
               H("c10_follow_len3", "helpers", "helpers::verif_kani", shape="file of 3 bytes, <= 5 reads", timeout=2400, cost=1200, tier="thorough")],
    functions=["FollowFileIterator::new / next (src/helpers.rs)"],
    bounds={"content": "2 (quick) or 3 (thorough) bytes over {a, b, newline} (b only in the first position)", "schedule": "the visible length advances by any amount before every read (every chunking of the appends x every placement of polls)",
            "reads": "<= 4 / 5, then the follower is stopped", "items": "up to 3"},
    stubs=_IO_STUBS,
    assumptions=["the shim is the file-system + BufReader contract; std's buffering, memchr and UTF-8 validation are trusted (running them symbolically did not conclude in 40 min for a 3-byte file, probe 21)"],
    outside=["appends that cut a multi-byte UTF-8 character (read_line returns InvalidData and following stops silently: a known weakness that this ASCII alphabet does not reach)", "seek to end without --head, the executor around the iterator", "files longer than 3 bytes"])
_EXEC_STUBS = _IO_STUBS + ["ExecutionEngine::execute -> logs the line it is given (update calls) / notes the final-result call, emits nothing",
                           "the user's interrupt: the shared running flag is cleared inside the engine stub once k lines have been consumed (k symbolic, k = 0: before the run)", "regex::Regex::new -> Err (unreached)"]
PROPS["C12"] = dict(
    claimed=False,
    harnesses=[H("c12_two_files_every_line_once", "executor", "executor::verif_kani", shape="two files of <= 3 and <= 2 bytes over {a, \\n, \\r}", timeout=1500, cost=600, env_stubbed=True)],
    functions=["FileExecutor::execute (src/executor.rs): reader loop, statistics", "std::io::Lines::next (real: newline / CRLF stripping) over the shim's read_line"],
    bounds={"files": "2, of <= 3 and <= 2 bytes", "alphabet": "a, newline, carriage return (first two positions)"},
    stubs=_EXEC_STUBS, assumptions=["the engine below the executor is a logging stub"],
    outside=["lines that are not valid UTF-8 (the Err from lines() leaves the inner loop silently: a known weakness, not exercised)", "JoinedTableData::execute's twin loop, main's file list", "more than two files / longer files"])
PROPS["C19"] = dict(
    claimed=False,
    harnesses=[H("c19_interrupt_point_select", "executor", "executor::verif_kani", shape="plain query, files a\\na and a\\n fixed, interrupt after k lines (k = 0..6 symbolic)", timeout=1500, cost=600, env_stubbed=True),
               H("c19_interrupt_point_aggregate", "executor", "executor::verif_kani", shape="aggregate query, fixed files, interrupt after k lines", timeout=1500, cost=600, env_stubbed=True),
               H("c19_interrupt_select", "executor", "executor::verif_kani", shape="plain query, 2 files, interrupt after k lines (k = 0..6)", timeout=1500, cost=600, env_stubbed=True),
               H("c19_interrupt_aggregate", "executor", "executor::verif_kani", shape="aggregate query, 2 files, interrupt after k lines", timeout=1500, cost=600, env_stubbed=True)],
    functions=["FileExecutor::execute (src/executor.rs): running check per line, final aggregate result after the loops"],
    bounds={"files": "2, of <= 3 and <= 2 bytes over {a, newline}", "interrupt point": "after any number k of consumed lines, or before the run"},
    stubs=_EXEC_STUBS, assumptions=["the flag is read sequentially (Kani does not model threads); the ctrl-c handler and signal delivery are outside"],
    outside=["the joined-file loader's 'every 10th line' check", "FollowFileExecutor's per-line check", "printed records being a prefix (the engine stub emits nothing; the prefix property follows from 'no line after the interrupt')"])

# ------------------------------------------------------------------------------------- C09 / C17
PROPS["C09"] = dict(
    harnesses=[H("c09_create_timestamp_total", "c09", ROOT + "::c09", shape="create_timestamp(any i32, any u32 x6) under any time-zone answer", timeout=600, cost=60),
               H("c09_json_value_real_total", "c09", ROOT + "::c09", shape="REAL -> JSON for every f64 (NaN, infinities)", timeout=600, cost=60),
               H("c03_arith_add_int_int", "execution", EX, shape="evaluate: INT + INT, full range", timeout=900, cost=80),
               H("c03_arith_sub_int_int", "execution", EX, shape="evaluate: INT - INT, full range", timeout=900, cost=80, tier="thorough"),
               H("c03_arith_mul_int_int", "execution", EX, shape="evaluate: INT * INT (multiplier -16..16)", timeout=900, cost=400, tier="thorough"),
               H("c03_arith_div_int_int", "execution", EX, shape="evaluate: INT / INT (divisor -16..16: zero divisor, MIN / -1)", timeout=900, cost=400, tier="thorough"),
               H("c03_unary_neg_int", "execution", EX, shape="evaluate: -INT", timeout=900, cost=30),
               H("c03_fn_abs_int", "execution", EX, shape="evaluate: abs(INT)", timeout=900, cost=40),
               H("c03_subscript_len1", "execution", EX, shape="evaluate: a[i] for every i64 subscript, array of 1 element", tier="thorough", timeout=900, cost=350, solo=True),
               H("c09_fold_sum_int_overflow", "aggregate_execution", AG, shape="SUM over two full-range INTs", timeout=900, cost=120),
               H("c09_fold_avg_int_overflow", "aggregate_execution", AG, shape="AVG over two full-range INTs", timeout=900, cost=120),
               H("c04_fold_percentile_all_null", "aggregate_execution", AG, shape="PERCENTILE over a group whose argument is NULL on every row (empty value list)", timeout=900, cost=60),
               H("c04_fold_percentile_n1", "aggregate_execution", AG, shape="PERCENTILE(p) over one value, every p in [0,1]", timeout=900, cost=60, tier="thorough")],
    functions=["create_timestamp, ValueType::parse (Timestamp arm), Value::json_value (src/model.rs)", "ExpressionExecutionEngine::evaluate integer kernels (src/execution/expression_execution.rs)",
               "GroupAggregator::update running sums (src/execution/aggregate_execution.rs)"],
    bounds={"time zone": "symbolic: a local time maps to no instant, one, or two, with any offsets within a day", "integers": "all i64 (divisor / multiplier -16..=16)", "REAL": "all f64 bit patterns"},
    stubs=_EVAL_STUBS + ["chrono::NaiveDateTime::parse_from_str -> arbitrary Ok(datetime) | Err"],
    assumptions=["C09 is the union of CBMC's automatic checks (arithmetic overflow, division by zero, index out of bounds, unwrap / expect / panic! reachability) over these harnesses and over every harness of the other properties"],
    outside=["hangs (no termination argument beyond loop bounds)", "arbitrary bytes through the regex engine and serde_json", "TIMESTAMP literals under a symbolic zone (c09_parse_timestamp_any_zone exhausts 14 GB in chrono's offset arithmetic; the DST-gap panic it targets was confirmed natively under TZ=Europe/Stockholm and repaired in 5f05aa0)", "timestamp part casts (`value as u32`, `* 1000`) in data_model.rs, INTERVAL literals with huge parts, date_trunc's unwrap chain, Display of intervals: harnesses not built",
             "the group table (accept_group indexing, result_rows_by_column[0])", "the CLI process"])
PROPS["C17"] = dict(
    harnesses=[H("c17_json_value_scalars", "c09", ROOT + "::c09", shape="INT / BOOLEAN / NULL -> JSON", timeout=600, cost=60),
               H("c09_json_value_real_total", "c09", ROOT + "::c09", shape="finite REAL -> JSON number, exact", timeout=600, cost=60)],
    functions=["Value::json_value (src/model.rs)"],
    bounds={"values": "every i64, every f64 (finite ones must be recovered exactly), both booleans, NULL"},
    stubs=["alloc::fmt::format -> empty string (unreached)"],
    assumptions=[],
    outside=["the record skeleton of OutputPrinter::print (one println per row, CSV header once, lone `input` column): its harnesses (c17_print_*, kept in /verif/kani/executor.rs) run the real format!/join machinery and do not conclude in 25 min",
             "the characters of text / CSV fields, JSON escaping and key order (core::fmt number formatting, serde_json's writer, IndexMap)", "arrays, timestamps, intervals as JSON"])

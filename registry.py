"""Registry of the solver checks: property -> harnesses (one Kani proof harness per shape), bounds,
stubs and what is outside each claim.  Read by run.py; the evidence files quote it."""

ROOT = "verif_kani"


def H(name, module, module_path, shape="", tier="quick", timeout=300, env_stubbed=False, **kw):
    d = dict(name=name, module=module, module_path=module_path, shape=shape, tier=tier, timeout=timeout,
             env_stubbed=env_stubbed)
    d.update(kw)
    return d


PROPS = {}

# ------------------------------------------------------------------------------------------- C16
_c16 = []
for v in ["null", "int", "float", "bool", "string", "timestamp", "interval"]:
    _c16.append(H("c16_pair_%s_%s" % (v, v), "c16", ROOT + "::c16", shape="pair %s x %s" % (v, v)))
for v in ["int", "float", "bool", "string", "timestamp", "interval"]:
    _c16.append(H("c16_triple_%s" % v, "c16", ROOT + "::c16", shape="triple %s" % v,
                  tier="quick" if v in ("int", "float", "bool") else "thorough", timeout=900))
_c16 += [
    H("c16_triple_int_float_int", "c16", ROOT + "::c16", shape="triple int,float,int"),
    H("c16_triple_float_int_float", "c16", ROOT + "::c16", shape="triple float,int,float"),
] + [H("c16_cross_%s" % v, "c16", ROOT + "::c16", shape="%s x each of the 6 other scalar variants" % v, timeout=600)
     for v in ["null", "int", "float", "bool", "string", "timestamp", "interval"]] + [
    H("c16_int_float_numeric", "c16", ROOT + "::c16", shape="Int vs Float numeric order"),
    H("c16_tuple_int_float", "c16", ROOT + "::c16", shape="Vec<Value> [Int,Float] pair (group key / DISTINCT tuple)", tier="thorough", timeout=1500),
    H("c16_pair_array1_array1", "c16", ROOT + "::c16", shape="pair Array[Int;1] x Array[Int;1]", tier="thorough", timeout=1500),
]
PROPS["C16"] = dict(
    harnesses=_c16,
    functions=["<Value as PartialEq/PartialOrd/Ord/Hash> (derived, src/model.rs)", "<Float as PartialEq/PartialOrd/Ord/Hash> (src/model.rs)",
               "fnv::FnvHasher (the DISTINCT hasher)", "chrono DateTime/TimeDelta Eq/Ord/Hash as used by Value"],
    bounds={"int": "all i64", "float": "all f64 bit patterns (NaN, +-0, +-inf, subnormals)", "string": "ASCII, length 0..2",
            "timestamp": "|instant| < 2^40 s, any nanosecond, any offset within +-24h", "interval": "|secs| < 2^50, any nanosecond",
            "array": "thorough tier only: INT elements, length 1", "unwind": 4},
    stubs=[],
    assumptions=["std's slice/Vec lexicographic Ord and derive(Ord/Hash) expansion are trusted for nesting deeper than the bound",
                 "consumers (BTreeMap, hashbrown, sort) are correct given a lawful order"],
    outside=["arrays longer than 1 / nested arrays (symbolic execution of the recursive Value glue does not terminate within budget)",
             "strings longer than 2 bytes, non-ASCII", "SipHash (RandomState) itself: equal byte streams are shown instead, which implies equal hashes for every Hasher"],
)

# ------------------------------------------------------------------------------------------- C03
EX = "execution::verif_kani"
_EVAL_STUBS = ["<Value as Clone>::clone -> scalar-only clone (arrays excluded by assumption; the subscript harnesses use a one-level array clone): the derived clone itself is not what these harnesses decide, and CBMC walks its recursive Array arm on every call",
               "<Value as Display>::fmt -> writes nothing", "chrono::NaiveDateTime::parse_from_str -> arbitrary Ok | Err",
               "regex::Regex::new -> Err (regex engine is environment; Ok path of regexp_matches outside the claim)",
               "chrono::Local::now -> arbitrary instant", "<Local as TimeZone>::offset_from_local_datetime -> arbitrary None|Single|Ambiguous",
               "<Local as TimeZone>::offset_from_utc_datetime -> arbitrary offset", "alloc::fmt::format -> empty string (error texts are not the subject)"]


def _names(prefix, items):
    return [prefix + i for i in items]


_c03_quick = set(_names("c03_arith_", ["add_int_int", "sub_int_int", "add_float_float", "null_int", "int_null", "int_float", "bool_bool"]) +
                 _names("c03_cmp_", ["int_null_gt_le"]) +
                 _names("c03_is_", ["null_null", "int_null"]) +
                 _names("c03_bool_", ["bool_bool", "bool_null"]) +
                 ["c03_unary_neg_int", "c03_unary_bool", "c03_unary_null"] +
                 _names("c03_in_", ["int_int", "null_int", "int_null"]) +
                 ["c03_fn_abs_int", "c03_subscript_len1"])

_c03_all = (_names("c03_arith_", ["add_int_int", "sub_int_int", "mul_int_int", "div_int_int", "add_float_float", "sub_float_float", "mul_float_float", "div_float_float",
                                  "null_null", "null_int", "int_null", "null_float", "float_null", "null_string", "bool_null", "null_timestamp", "interval_null",
                                  "int_float", "float_int", "int_bool", "bool_bool", "string_string", "string_int", "int_string", "float_bool", "int_interval", "timestamp_int"]) +
            _names("c03_cmp_", ['int_int_eq_ne', 'int_int_gt_ge', 'int_int_lt_le', 'float_float_eq_ne', 'float_float_gt_ge', 'float_float_lt_le', 'bool_bool_eq_lt', 'string1_string1_eq_lt', 'string1_string1_ne_ge', 'string0_string1_gt_le', 'timestamp_timestamp_eq_lt', 'interval_interval_ne_gt', 'null_null_eq_ne', 'null_int_eq_ne', 'null_int_lt_ge', 'int_null_eq_ne', 'int_null_gt_le', 'float_null_ne_ge', 'null_string_ne_lt', 'bool_null_ne_gt', 'timestamp_null_ne_ge', 'int_float_gt_lt', 'float_int_gt_eq', 'int_bool_eq_lt']) +
            _names("c03_is_", ["null_null", "int_null", "null_int", "float_null", "string_null", "bool_null", "timestamp_null", "interval_null", "int_int", "bool_bool", "string_string"]) +
            _names("c03_bool_", ["bool_bool", "bool_null", "null_bool", "null_null", "int_bool", "bool_string"]) +
            ["c03_unary_neg_int"] + _names("c03_unary_", ["null", "float", "bool", "string", "int", "interval"]) +
            _names("c03_in_", ["int_int", "null_int", "int_null", "null_null", "float_float", "string_string", "bool_bool"]) +
            _names("c03_subscript_", ["len0", "len1", "int_int", "null_int", "string_int", "array_null", "array_float", "array_string"]) +
            _names("c03_fn_", ["abs_int", "abs_other", "wrong_arity_or_type"]) +
            ["c03_cast_interval"])

_C03_COST = {"c03_cmp_int_null_gt_le": 400, "c03_subscript_len1": 350, "c03_subscript_len0": 300, "c03_arith_div_int_int": 400, "c03_arith_mul_int_int": 400, "c03_arith_add_float_float": 160, "c03_arith_sub_float_float": 160,
             "c03_arith_mul_float_float": 300, "c03_arith_div_float_float": 400, "c03_fn_abs_int": 120}

PROPS["C03"] = dict(
    harnesses=[H(n, "execution", EX, shape=n[4:].replace("_", " "), tier="quick" if n in _c03_quick else "thorough", timeout=900, cost=_C03_COST.get(n, 60)) for n in _c03_all],
    functions=["ExpressionExecutionEngine::evaluate (src/execution/expression_execution.rs: Compare, NullableCompare, Arithmetic, UnaryArithmetic, BooleanOperation, In, Case, ArrayElementAccess, TypeConversion, FunctionCall abs/greatest/least/pow/array_length)",
               "Value::map_same_type / Value::map (src/model.rs)", "derived Value ordering as used by Compare"],
    bounds={"operands": "all i64 / all f64 bit patterns / bool / ASCII strings of length <= 2 / instants |t| < 2^40 s any offset / intervals < 2^40 s",
            "division and multiplication": "divisor / multiplier restricted to -16..=16 (64-bit divider circuits do not finish); dividend / multiplicand full range",
            "operators": "symbolic within each family (4 arithmetic, 6 comparison, IS/IS NOT, AND/OR, IN/NOT IN)",
            "lists": "IN lists and CASE with exactly 1 entry, arrays of length 0..1, strings of length 0..1, functions of one argument (every loop of the evaluator may run once: unwind 2; unwind 3 does not conclude in 15 min)",
            "nesting": "one operator over arbitrary operand values"},
    stubs=_EVAL_STUBS,
    assumptions=["operand values reach evaluate through a harness ColumnProvider keyed by scope (column-name binding through hash maps is outside the claim)",
                 "each operator is checked over arbitrary operand values, which is what deeper nesting can produce; error propagation through >1 level is not unrolled"],
    outside=["column-name binding (HashMap providers), SELECT * expansion and projection naming (C03's row-level clauses: see select-engine harnesses when present)",
             "regexp_matches, upper/lower, array_unique (BTreeSet), sqrt/pow on REAL (CBMC's float transcendental models are not bit-precise), EXTRACT / date_trunc (chrono calendar code)",
             "timestamp <-> string coercion in comparisons (chrono's format parser)", "functions of two or more arguments (greatest, least, pow, array_cat/append/prepend, make_timestamp): the argument loop needs a second iteration",
             "IN lists with two or more entries, strings longer than 1 byte",
             "arrays longer than 1 element in subscripts (one-level array clone stub, unwind 2)",
             "CASE, array_length, casts other than INTERVAL::int and timestamp comparisons: their harnesses (kept in /verif/kani/execution.rs: c03_case_*, c03_fn_array_length, c03_cast_identity_and_mismatch, c03_cmp_timestamp_*) exhaust memory / 15 min in CBMC and are not registered"],
)

# ------------------------------------------------------------------------------------- C04 / C15
AG = "execution::aggregate_execution::verif_kani"
_fold = []
for _k, _label in [("sum_int", "SUM over INT"), ("sum_float", "SUM over REAL"), ("avg_int", "AVG over INT"), ("avg_float", "AVG over REAL")]:
    for _pat, _pl in [("vvv", "no NULL"), ("nvv", "NULL arrives first"), ("vnv", "NULL in the middle"), ("nnn", "all NULL")]:
        _quick = _k.endswith("_int") and _pat in ("vvv", "nvv")
        _fold.append(("c04_fold_%s_%s" % (_k, _pat), "%s, 3 rows, %s" % (_label, _pl), "quick" if _quick else "thorough"))
for _k in ["bool_and", "bool_or"]:
    for _pat, _pl in [("vvv", "no NULL"), ("nvv", "NULL arrives first"), ("nnn", "all NULL")]:
        _fold.append(("c04_fold_%s_%s" % (_k, _pat), "%s, 3 rows, %s" % (_k.upper(), _pl), "quick" if _pat == "nvv" else "thorough"))
_fold += [("c04_fold_percentile_n1", "PERCENTILE(p) over 1 INT, every p in [0,1]", "quick"), ("c04_fold_percentile_all_null", "PERCENTILE over an all-NULL group", "quick")]
_C15_QUICK = ("c04_fold_sum_int_nvv", "c04_fold_avg_int_vvv", "c04_fold_bool_and_nvv")
_FOLD_FUNCS = ["GroupAggregator::default / update / update_value / is_null (src/execution/aggregate_execution.rs)",
               "Value::modify_same_type_numeric_nullable, Value::map_numeric, Value::default_value (src/model.rs)", "slice sort of Vec<Value> (PERCENTILE)"]
_FOLD_BOUNDS = {"group": "3 rows; NULL pattern concrete per harness (no NULL / NULL first / NULL in the middle / all NULL), values symbolic", "INT / REAL values": "integers with |x| <= 2^20 (every sum and square exact in i64 and f64); overflow harnesses: full i64",
                "percentile p": "every f64 in [0, 1]", "orders": "arrival order as given, reversed and rotated", "unwind": "2 (PERCENTILE: 4)"}
_FOLD_ASSUME = ["driver protocol copied from update_aggregate / execute_result: aggregator created lazily from the first arriving value, update() only for non-NULL values, NULL sets the cell only while is_null(), update_value() before a table is shown",
                "the group table around the fold (BTreeMap<GroupKey, HashMap<usize,_>>, column-wise result assembly, HAVING) is outside the claim: symbolic execution of the engine does not conclude for two rows (DESIGN.md probe 14)"]
_FOLD_OUT = ["VARIANCE / STDDEV and PERCENTILE over 2+ values: their harnesses (c04_fold_variance_*, c04_fold_percentile_n2/n3, kept in /verif/kani/aggregate_execution.rs) do not conclude in 15 min even with the accumulators as the only assertion and std's sort stubbed",
             "one row per group / group order / no cell from another group (group table)", "COUNT, COUNT(DISTINCT), MIN, MAX, ARRAY_AGG, STRING_AGG (folded inline in the engine or through HashSet)",
             "STDDEV's final sqrt (VARIANCE is checked; the flag only selects sqrt)", "groups of more than 3 rows", "HAVING, transform wrappers"]
PROPS["C04"] = dict(
    harnesses=[H(n, "aggregate_execution", AG, shape=sh, tier=t, timeout=900, cost=120) for (n, sh, t) in _fold],
    functions=_FOLD_FUNCS, bounds=_FOLD_BOUNDS, stubs=["alloc::fmt::format -> empty string"], assumptions=_FOLD_ASSUME, outside=_FOLD_OUT)
PROPS["C15"] = dict(
    harnesses=[H(n, "aggregate_execution", AG, shape=sh + " (as given, reversed and rotated arrival order)", tier="quick" if n in _C15_QUICK else "thorough", timeout=900, cost=120) for (n, sh, t) in _fold
               if n not in ("c04_fold_percentile_n1", "c04_fold_percentile_all_null")],
    functions=_FOLD_FUNCS, bounds=_FOLD_BOUNDS, stubs=["alloc::fmt::format -> empty string"], assumptions=_FOLD_ASSUME,
    outside=_FOLD_OUT + ["split / concatenation law and the union of group sets (group table)", "MIN / MAX / COUNT (inline in update_aggregate)"])

# ------------------------------------------------------------------------------------- C06 / C07
EE = "execution::execution_engine::verif_kani"
_ENGINE_STUBS = ["Tables::get -> a fixed table definition", "TableDefinition::extract -> admitted row (one non-NULL column) or non-admitted row (0..2 NULL columns), chosen by the harness",
                 "SelectExecutionEngine::execute / AggregateExecutionEngine::execute / execute_update / execute_result / join::execute_join -> contract stubs: record that the engine was reached, return 0..3 rows (each NULL-only or not)",
                 "ExecutionEngine::create_columns_mapping, HashMapColumnProvider::create_table_scope -> empty maps (and record the call)", "std::hash::RandomState::new -> fixed keys", "regex::Regex::new -> Err", "alloc::fmt::format -> empty string"]
PROPS["C06"] = dict(
    harnesses=[H(n, "execution_engine", EE, shape=sh, timeout=600, env_stubbed=True, cost=60) for (n, sh) in [
        ("c06_noise_select", "SELECT, no join"), ("c06_noise_select_join", "SELECT with joined table"),
        ("c06_noise_aggregate_follow", "aggregate, update+result (follow mode)"), ("c06_noise_aggregate_follow_join", "aggregate follow mode with joined table"),
        ("c06_noise_aggregate_batch", "aggregate, update-only (batch mode)"), ("c06_noise_aggregate_batch_join", "aggregate batch mode with joined table"),
        ("c06_admitted_reaches_engine", "liveness of the stubs: an admitted line reaches the select engine")]],
    functions=["ExecutionEngine::execute, execute_select, execute_aggregate, execute_aggregate_update, update_limit (src/execution/execution_engine.rs)", "Row::any_result (src/data_model.rs)"],
    bounds={"non-admitted row": "0..1 columns, all NULL", "engine state": "arbitrary LIMIT counter (u8), LIMIT absent or any u8, DISTINCT / OUTER flags symbolic", "step": "one line from an arbitrary state (inductive step: a line without trace leaves every later step's pre-state unchanged)"},
    stubs=_ENGINE_STUBS,
    assumptions=["one inductive step covers insertion/deletion of noise lines at any position: stated as an argument, not separately checked",
                 "what extract() returns for concrete noise text (regex matching) is environment"],
    outside=["the admission rule inside TableDefinition::extract (part 1 of the statement): its harnesses (c06_admission_*, kept in /verif/kani/data_model.rs) push / clear heap-held Vec<Value> rows and do not conclude in 25 min",
             "FileExecutor statistics counters, follow mode's screen clearing", "the joined-file loader (same execute path through SELECT *)"])
PROPS["C07"] = dict(
    harnesses=[H(n, "execution_engine", EE, shape=sh, timeout=600, env_stubbed=True, cost=60) for (n, sh) in [
        ("c07_limit_step_select", "SELECT LIMIT n>=1, <=1 row per line, rows with a non-NULL column"),
        ("c07_limit_step_select_nullonly", "SELECT LIMIT n>=1, rows may consist of NULLs only"),
        ("c07_limit_step_select_zero", "SELECT LIMIT n>=0 (includes LIMIT 0)"),
        ("c07_limit_step_join", "SELECT .. JOIN LIMIT n>=1, <=1 row per line"),
        ("c07_no_limit_step", "no LIMIT"), ("c07_aggregate_result_truncated", "batch aggregate: final table cut to n rows")]],
    functions=["ExecutionEngine::execute (Select arm, aggregate_result arm), update_limit (src/execution/execution_engine.rs)"],
    bounds={"n": "any u8", "rows handed out before": "any count allowed by the protocol (< n, or 0 for n = 0)", "rows per line": "0..1, each NULL-only or not (join fan-out of 2+ rows per line needs unwind 3+, which does not conclude: outside the bound); final aggregate table: 0..2 rows", "step": "one line from an arbitrary reachable LIMIT state (inductive)"},
    stubs=_ENGINE_STUBS,
    assumptions=["the executor offers another line only while reached_limit has not been reported (FileExecutor / FollowFileExecutor loops: see C12 when registered)",
                 "the engines below the dispatcher return an arbitrary 0..3 rows per line (contract stub)"],
    outside=["'consumes no input beyond the n-th row' at the file level: FileExecutor's break leaves only the current file's loop (multi-file runs) and LIMIT 0 still reads one line",
             "aggregate statements in follow mode (table refreshed per line)", "DISTINCT + LIMIT interplay inside SelectExecutionEngine (stubbed here)"])

# ------------------------------------------------------------------------------------------- C08
PROPS["C08"] = dict(
    claimed=False,
    harnesses=[H("c08_distinct_one_column", "execution", EX, shape="3 tuples x 1 column (NULL or INT 0..2)", timeout=900, cost=200),
               H("c08_distinct_two_columns", "execution", EX, shape="3 tuples x 2 columns (NULL or INT 0..2)", timeout=900, cost=400)],
    functions=["DistinctValues::new / add (src/execution/helpers.rs)", "derived Value / Vec<Value> equality and clone as used by the set"],
    bounds={"tuples": "3 per run, 1 or 2 columns", "column values": "NULL or INT 0..2 (symbolic)", "set": "Vec-backed shim of FnvHashSet: membership by ==; that equal tuples hash equally under FnvHasher is decided in C16 (c16_tuple_int_float, scalar pair laws)"},
    stubs=["fnv::FnvHashSet -> /verif/kani/shim.rs HashSet (contract: insert/contains by ==)", "alloc::fmt::format -> empty string"],
    assumptions=["hashbrown's correctness given Eq/Hash-consistent keys (trusted base)"],
    outside=["the select path around the set (SelectExecutionEngine::execute evaluates projections through the evaluator; with two projections its loops need unwind 3, which does not conclude) - the call `if distinct && !add(..) { return None }` is read, not decided",
             "the aggregate path (DISTINCT consulted only inside `if let Some(having)`, its memory surviving refreshes): engine level, not reachable", "tuples with REAL / TEXT columns (C16 decides their Eq/Hash laws)"])

# ------------------------------------------------------------------------------------------- C13
PA = "parsing::parser::verif_kani"
PROPS["C13"] = dict(
    harnesses=[H(n, "parser", PA, shape=sh, timeout=900, cost=c) for (n, sh, c) in [
        ("c13_prec_postfix_mul", "every of :: [ . vs every of * /", 60), ("c13_prec_mul_add", "* / vs + -", 60), ("c13_prec_add_cmp", "+ - vs the 10 comparison tokens", 60),
        ("c13_prec_cmp_and", "comparison tokens vs AND", 60), ("c13_prec_and_or", "AND vs OR", 60), ("c13_prec_mul_cmp", "* / vs comparison tokens", 60),
        ("c13_prec_add_and", "+ - vs AND", 60), ("c13_prec_cmp_or", "comparison tokens vs OR", 60), ("c13_prec_same_level", "* = / and + = -", 60),
]],
    functions=["Parser::get_token_precedence, BinaryOperators::new (src/parsing/parser.rs, operator.rs)", "Parser::parse_expression -> parse_unary_operator / parse_binary_operator_rhs / parse_primary_expression on token sequences"],
    bounds={"precedence levels": "all pairs of operator tokens of two different classes (class membership symbolic)", "chains": "none: the precedence-climbing harnesses (c13_climb_*, kept in /verif/kani/parser.rs) explore the recursive-descent parser to the unwinding bound on every token and do not conclude in 10 min"},
    stubs=["std HashMap/HashSet of parsing/operator.rs -> /verif/kani/shim.rs", "alloc::fmt::format -> empty string"],
    assumptions=["operators inside one class (e.g. = vs <) are not ordered by the check: the statement names them as one level"],
    outside=["the climbing algorithm itself (associativity, `+ 1` in the recursive call): decided only for the precedence levels it consults",
             "the tokenizer (=- and -- fusion), NOT / unary minus placement, IN with a one-element list, parenthesised operands"])

# ------------------------------------------------------------------------------------- C01 / C02
DM = "data_model::verif_kani"
_DM_STUBS = ["ParsingInput built directly by the harness = the environment's answer: pattern matched or not, 1..3 split fields with symbolic bytes, or a constructed JSON document (regex engine and serde_json parser are environment)",
             "std HashMap of data_model.rs -> /verif/kani/shim.rs", "regex::Regex::new -> Err (never reached: tables have no patterns)", "chrono Local time-zone lookups -> arbitrary answers", "alloc::fmt::format -> empty string"]
PROPS["C01"] = dict(
    claimed=False,
    harnesses=[H(n, "data_model", DM, shape=sh, timeout=900, cost=c) for (n, sh, c) in [
        ("c01_split_int_default", "INT column with DEFAULT on split field 1, pattern/field present or not", 300),
        ("c01_split_int_nodefault", "INT column without DEFAULT on split field 1, pattern/field present or not", 300),
        ("c01_split_boolean", "BOOLEAN column on split field 1", 200),
        ("c01_split_own_field", "INT column on split field g (g symbolic in 1..2) of a 3-entry split", 300),
        ("c01_split_array", "INT[] column from fields 1 and 2", 400)]],
    functions=["TableDefinition::extract, ColumnParsing::extract, ColumnParsing::extract_using_regex (Split arm), ColumnDefinition::default_value (src/data_model.rs)", "ValueType::parse INT arm (src/model.rs)"],
    bounds={"fields": "<= 2 bytes over {0-9, -, +, space, x}", "split result": "1..3 entries", "columns": "1..2 per table"},
    stubs=_DM_STUBS,
    assumptions=["the Captures arm of extract_using_regex is a textual twin of the Split arm and is not executed (regex::Captures has no public constructor)"],
    outside=["the regex engine (leftmost match, group numbering, split)", "REAL / TIMESTAMP / INTERVAL literal parsing, TRIM, timestamp assembly from parts (see C09 for create_timestamp)", "CREATE TABLE parsing", "fields longer than 2 bytes"])
PROPS["C02"] = dict(
    claimed=False,
    harnesses=[H(n, "data_model", DM, shape=sh, timeout=900, cost=c) for (n, sh, c) in [
        ("c02_json_index_int", "{[i]} => INT on [leaf, \"\"], leaf any JSON scalar", 400), ("c02_json_index_int_default", "{[i]} => INT DEFAULT 7", 400),
        ("c02_json_index_real", "{[i]} => REAL", 400), ("c02_json_index_real_default", "{[i]} => REAL DEFAULT 7.0", 400),
        ("c02_json_index_boolean", "{[i]} => BOOLEAN", 300), ("c02_json_index_text", "{[i]} => TEXT", 300), ("c02_json_index_text_default", "{[i]} => TEXT DEFAULT ''", 300),
        ("c02_json_nested_path", "{[i][j]} => INT on [[leaf, true], 5] via JsonAccess::from_linear", 400)]],
    functions=["JsonAccess::get_value (Array steps, recursion), JsonAccess::from_linear, ColumnParsing::extract Json branch (src/data_model.rs)", "ValueType::convert_from_json (src/model.rs)"],
    bounds={"document": "JSON arrays of depth <= 2, <= 2 elements; leaf = null | bool | any i64 | any u64 | any finite f64 | string", "index": "0..2 per step", "DEFAULT": "present or not"},
    stubs=_DM_STUBS,
    assumptions=[],
    outside=["serde_json::from_str (the JSON parser: duplicate keys, numbers beyond f64, invalid JSON)", "object field steps: serde_json's Map is an IndexMap over hashbrown, which cannot be shimmed",
             "CONVERT (string -> typed literal parsing)", "independence from regex columns of the same table"])

# ------------------------------------------------------------------------------- C10 / C12 / C19
_IO_STUBS = ["std::io::BufReader -> /verif/kani/shim.rs io::BufReader: a window on a symbolic file (content bytes, read position, visible length that each read may advance, read budget); read_line implements the documented BufRead::read_line contract",
             "alloc::fmt::format -> empty string"]
PROPS["C10"] = dict(
    claimed=False,
    harnesses=[H("c10_follow_schedule_len2", "helpers", "helpers::verif_kani", shape="content a\\n fixed, every append/poll schedule", timeout=900, cost=300),
               H("c10_follow_schedule_len4", "helpers", "helpers::verif_kani", shape="content a\\nb\\n fixed, every append/poll schedule", timeout=1500, cost=600),
               H("c10_follow_len2", "helpers", "helpers::verif_kani", shape="file of 2 bytes over {a,b,\\n}, arbitrary append/poll interleaving, <= 4 reads", timeout=900, cost=300),
               H("c10_follow_len3", "helpers", "helpers::verif_kani", shape="file of 3 bytes, <= 5 reads", timeout=2400, cost=1200, tier="thorough")],
    functions=["FollowFileIterator::new / next (src/helpers.rs)"],
    bounds={"content": "2 (quick) or 3 (thorough) bytes over {a, b, newline} (b only in the first position)", "schedule": "the visible length advances by any amount before every read (every chunking of the appends x every placement of polls)",
            "reads": "<= 4 / 5, then the follower is stopped", "items": "up to 3"},
    stubs=_IO_STUBS,
    assumptions=["the shim is the file-system + BufReader contract; std's buffering, memchr and UTF-8 validation are trusted (running them symbolically did not conclude in 40 min for a 3-byte file, probe 21)"],
    outside=["appends that cut a multi-byte UTF-8 character (read_line returns InvalidData and following stops silently: a known weakness that this ASCII alphabet does not reach)", "seek to end without --head, the executor around the iterator", "files longer than 3 bytes"])
_EXEC_STUBS = _IO_STUBS + ["ExecutionEngine::execute -> logs the line it is given (update calls) / notes the final-result call, emits nothing",
                           "the user's interrupt: the shared running flag is cleared inside the engine stub once k lines have been consumed (k symbolic, k = 0: before the run)", "regex::Regex::new -> Err (unreached)"]
PROPS["C12"] = dict(
    claimed=False,
    harnesses=[H("c12_two_files_every_line_once", "executor", "executor::verif_kani", shape="two files of <= 3 and <= 2 bytes over {a, \\n, \\r}", timeout=1500, cost=600, env_stubbed=True)],
    functions=["FileExecutor::execute (src/executor.rs): reader loop, statistics", "std::io::Lines::next (real: newline / CRLF stripping) over the shim's read_line"],
    bounds={"files": "2, of <= 3 and <= 2 bytes", "alphabet": "a, newline, carriage return (first two positions)"},
    stubs=_EXEC_STUBS, assumptions=["the engine below the executor is a logging stub"],
    outside=["lines that are not valid UTF-8 (the Err from lines() leaves the inner loop silently: a known weakness, not exercised)", "JoinedTableData::execute's twin loop, main's file list", "more than two files / longer files"])
PROPS["C19"] = dict(
    claimed=False,
    harnesses=[H("c19_interrupt_point_select", "executor", "executor::verif_kani", shape="plain query, files a\\na and a\\n fixed, interrupt after k lines (k = 0..6 symbolic)", timeout=1500, cost=600, env_stubbed=True),
               H("c19_interrupt_point_aggregate", "executor", "executor::verif_kani", shape="aggregate query, fixed files, interrupt after k lines", timeout=1500, cost=600, env_stubbed=True),
               H("c19_interrupt_select", "executor", "executor::verif_kani", shape="plain query, 2 files, interrupt after k lines (k = 0..6)", timeout=1500, cost=600, env_stubbed=True),
               H("c19_interrupt_aggregate", "executor", "executor::verif_kani", shape="aggregate query, 2 files, interrupt after k lines", timeout=1500, cost=600, env_stubbed=True)],
    functions=["FileExecutor::execute (src/executor.rs): running check per line, final aggregate result after the loops"],
    bounds={"files": "2, of <= 3 and <= 2 bytes over {a, newline}", "interrupt point": "after any number k of consumed lines, or before the run"},
    stubs=_EXEC_STUBS, assumptions=["the flag is read sequentially (Kani does not model threads); the ctrl-c handler and signal delivery are outside"],
    outside=["the joined-file loader's 'every 10th line' check", "FollowFileExecutor's per-line check", "printed records being a prefix (the engine stub emits nothing; the prefix property follows from 'no line after the interrupt')"])

# ------------------------------------------------------------------------------------- C09 / C17
PROPS["C09"] = dict(
    harnesses=[H("c09_create_timestamp_total", "c09", ROOT + "::c09", shape="create_timestamp(any i32, any u32 x6) under any time-zone answer", timeout=600, cost=60),
               H("c09_json_value_real_total", "c09", ROOT + "::c09", shape="REAL -> JSON for every f64 (NaN, infinities)", timeout=600, cost=60),
               H("c03_arith_add_int_int", "execution", EX, shape="evaluate: INT + INT, full range", timeout=900, cost=80),
               H("c03_arith_sub_int_int", "execution", EX, shape="evaluate: INT - INT, full range", timeout=900, cost=80, tier="thorough"),
               H("c03_arith_mul_int_int", "execution", EX, shape="evaluate: INT * INT (multiplier -16..16)", timeout=900, cost=400, tier="thorough"),
               H("c03_arith_div_int_int", "execution", EX, shape="evaluate: INT / INT (divisor -16..16: zero divisor, MIN / -1)", timeout=900, cost=400, tier="thorough"),
               H("c03_unary_neg_int", "execution", EX, shape="evaluate: -INT", timeout=900, cost=30),
               H("c03_fn_abs_int", "execution", EX, shape="evaluate: abs(INT)", timeout=900, cost=40),
               H("c03_subscript_len1", "execution", EX, shape="evaluate: a[i] for every i64 subscript, array of 1 element", timeout=900, cost=350),
               H("c09_fold_sum_int_overflow", "aggregate_execution", AG, shape="SUM over two full-range INTs", timeout=900, cost=120),
               H("c09_fold_avg_int_overflow", "aggregate_execution", AG, shape="AVG over two full-range INTs", timeout=900, cost=120)],
    functions=["create_timestamp, ValueType::parse (Timestamp arm), Value::json_value (src/model.rs)", "ExpressionExecutionEngine::evaluate integer kernels (src/execution/expression_execution.rs)",
               "GroupAggregator::update running sums (src/execution/aggregate_execution.rs)"],
    bounds={"time zone": "symbolic: a local time maps to no instant, one, or two, with any offsets within a day", "integers": "all i64 (divisor / multiplier -16..=16)", "REAL": "all f64 bit patterns"},
    stubs=_EVAL_STUBS + ["chrono::NaiveDateTime::parse_from_str -> arbitrary Ok(datetime) | Err"],
    assumptions=["C09 is the union of CBMC's automatic checks (arithmetic overflow, division by zero, index out of bounds, unwrap / expect / panic! reachability) over these harnesses and over every harness of the other properties"],
    outside=["hangs (no termination argument beyond loop bounds)", "arbitrary bytes through the regex engine and serde_json", "TIMESTAMP literals under a symbolic zone (c09_parse_timestamp_any_zone exhausts 14 GB in chrono's offset arithmetic; the DST-gap panic it targets was confirmed natively under TZ=Europe/Stockholm and repaired in 5f05aa0)", "timestamp part casts (`value as u32`, `* 1000`) in data_model.rs, INTERVAL literals with huge parts, date_trunc's unwrap chain, Display of intervals: harnesses not built",
             "the group table (accept_group indexing, result_rows_by_column[0])", "the CLI process"])
PROPS["C17"] = dict(
    harnesses=[H("c17_json_value_scalars", "c09", ROOT + "::c09", shape="INT / BOOLEAN / NULL -> JSON", timeout=600, cost=60),
               H("c09_json_value_real_total", "c09", ROOT + "::c09", shape="finite REAL -> JSON number, exact", timeout=600, cost=60)],
    functions=["Value::json_value (src/model.rs)"],
    bounds={"values": "every i64, every f64 (finite ones must be recovered exactly), both booleans, NULL"},
    stubs=["alloc::fmt::format -> empty string (unreached)"],
    assumptions=[],
    outside=["the record skeleton of OutputPrinter::print (one println per row, CSV header once, lone `input` column): its harnesses (c17_print_*, kept in /verif/kani/executor.rs) run the real format!/join machinery and do not conclude in 25 min",
             "the characters of text / CSV fields, JSON escaping and key order (core::fmt number formatting, serde_json's writer, IndexMap)", "arrays, timestamps, intervals as JSON"])

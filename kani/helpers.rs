// cfg(kani) child module of src/.../helpers.rs (see DESIGN.md §1.1)

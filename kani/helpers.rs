// cfg(kani) child module of src/helpers.rs: FollowFileIterator::next (real) over the I/O shim reader
// (a symbolic file that grows while it is followed).  C10.
#![allow(dead_code, unused_imports, unused_macros, static_mut_refs)]

use std::fs::File;
use std::mem::ManuallyDrop;
use std::os::unix::io::FromRawFd;

use crate::verif_kani::shim::io::{BufReader, SymFile, FILES, MAX_FILE, READ_BUDGET, READ_CALLS};

use super::FollowFileIterator;

/// the k-th newline-terminated line of content[..len]: (start, end) without the newline
fn ref_line(content: &[u8; MAX_FILE], len: usize, k: usize) -> Option<(usize, usize)> {
    let mut start = 0;
    let mut seen = 0;
    let mut i = 0;
    while i < MAX_FILE {
        if i < len && content[i] == b'\n' {
            if seen == k { return Some((start, i)); }
            seen += 1;
            start = i + 1;
        }
        i += 1;
    }
    None
}

fn item_is(item: &Option<String>, content: &[u8; MAX_FILE], range: Option<(usize, usize)>) -> bool {
    match (item, range) {
        (None, _) => true, // delivery may stop early only because the follower was stopped (read budget)
        (Some(_), None) => false,
        (Some(s), Some((a, b))) => {
            let bytes = s.as_bytes();
            if bytes.len() != b - a { return false; }
            let mut i = 0;
            while i < MAX_FILE {
                if i < bytes.len() && bytes[i] != content[a + i] { return false; }
                i += 1;
            }
            true
        }
    }
}

/// Every way of writing a file of <= 4 bytes over {a, b, \n} and interleaving the appends with the
/// follower's reads (the visible length may advance arbitrarily before every read): the items delivered
/// are exactly the newline-terminated lines, in order, byte for byte; the tail is never delivered.
macro_rules! follow_harness {
    ($name:ident, $len:expr, $budget:expr, $unwind:expr) => {
        #[kani::proof]
        #[kani::unwind($unwind)]
        #[kani::stub(alloc::fmt::format, crate::verif_kani::common::stub_format)]
        fn $name() {
            let content: [u8; MAX_FILE] = kani::any();
            kani::assume((content[0] == b'a' || content[0] == b'b' || content[0] == b'\n')
                && (content[1] == b'a' || content[1] == b'\n') && (content[2] == b'a' || content[2] == b'\n')
                && (content[3] == b'a' || content[3] == b'\n'));
            let initially: usize = kani::any();
            kani::assume(initially <= $len);
            unsafe {
                FILES[0] = SymFile { content, len: $len, visible: initially, pos: 0, growing: true };
                READ_BUDGET = $budget;
                READ_CALLS = 0;
            }
            let file = unsafe { File::from_raw_fd(3) };
            let mut it = ManuallyDrop::new(FollowFileIterator::new(BufReader::new(file)));
            let i0 = ManuallyDrop::new(it.next());
            let i1 = ManuallyDrop::new(if i0.is_some() { it.next() } else { None });
            let i2 = ManuallyDrop::new(if i1.is_some() { it.next() } else { None });
            assert!(item_is(&i0, &content, ref_line(&content, $len, 0)), "C10 the first item is the first completed line, byte for byte");
            assert!(item_is(&i1, &content, ref_line(&content, $len, 1)), "C10 the second item is the second completed line, byte for byte");
            assert!(item_is(&i2, &content, ref_line(&content, $len, 2)), "C10 the third item is the third completed line, byte for byte");
            // nothing is lost: when the whole file was visible from the start, every completed line is delivered
            if initially == $len {
                assert!(i0.is_some() == ref_line(&content, $len, 0).is_some(), "C10 every completed line is delivered");
                assert!(i1.is_some() == ref_line(&content, $len, 1).is_some(), "C10 every completed line is delivered");
            }
            kani::cover!(i1.is_some(), "follow: two lines delivered reachable");
            kani::cover!(i0.is_some() && initially == 0, "follow: line delivered after appends reachable");
        }
    };
}
follow_harness!(c10_follow_len2, 2, 4, 6);
follow_harness!(c10_follow_len3, 3, 5, 7);

#[cfg(test)]
#[path = "/verif/.cache/playback/helpers.rs"]
mod playback_gen;

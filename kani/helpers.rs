// cfg(kani) child module of src/helpers.rs: FollowFileIterator::next (real) over the I/O shim reader
// (a symbolic file that grows while it is followed).  C10.
#![allow(dead_code, unused_imports, unused_macros, static_mut_refs)]

use std::fs::File;
use std::mem::ManuallyDrop;
use std::os::unix::io::FromRawFd;

use crate::verif_kani::shim::io::{BufReader, SymFile, FILES, MAX_FILE, MAX_STALLS, READ_BUDGET};

use super::FollowFileIterator;

/// the k-th newline-terminated line of content[..len]: (start, end) without the newline
fn ref_line(content: &[u8; MAX_FILE], len: usize, k: usize) -> Option<(usize, usize)> {
    let mut start = 0;
    let mut seen = 0;
    let mut i = 0;
    while i < MAX_FILE {
        if i < len && content[i] == b'\n' {
            if seen == k { return Some((start, i)); }
            seen += 1;
            start = i + 1;
        }
        i += 1;
    }
    None
}

fn item_is(item: &Option<String>, content: &[u8; MAX_FILE], range: Option<(usize, usize)>) -> bool {
    match (item, range) {
        (None, _) => true, // delivery may stop early only because the follower was stopped (read budget)
        (Some(_), None) => false,
        (Some(s), Some((a, b))) => {
            let bytes = s.as_bytes();
            if bytes.len() != b - a { return false; }
            let mut i = 0;
            while i < MAX_FILE {
                if i < bytes.len() && bytes[i] != content[a + i] { return false; }
                i += 1;
            }
            true
        }
    }
}

fn count_lines(content: &[u8; MAX_FILE], len: usize) -> usize {
    let mut n = 0;
    let mut i = 0;
    while i < MAX_FILE {
        if i < len && content[i] == b'\n' { n += 1; }
        i += 1;
    }
    n
}

/// Every way of writing a file of $len bytes over {a, b, \n} and interleaving the appends with the follower's
/// reads (before every read the visible length may stay or advance by any amount; at most 2 reads find nothing
/// new): the items delivered are exactly the newline-terminated lines, in order, byte for byte, and the
/// follower does not starve (the read budget is never exceeded).  The unterminated tail is never delivered:
/// the harness asks for exactly as many items as there are completed lines.
macro_rules! follow_harness {
    ($name:ident, $len:expr, $unwind:expr, $fixed:expr) => {
        #[kani::proof]
        #[kani::unwind($unwind)]
        #[kani::stub(alloc::fmt::format, crate::verif_kani::common::stub_format)]
        fn $name() {
            // $fixed: the content is concrete ("a\nb\n") and only the schedule is symbolic
            let content: [u8; MAX_FILE] = if $fixed { [b'a', b'\n', b'b', b'\n'] } else { kani::any() };
            kani::assume((content[0] == b'a' || content[0] == b'b' || content[0] == b'\n')
                && (content[1] == b'a' || content[1] == b'\n') && (content[2] == b'a' || content[2] == b'\n')
                && (content[3] == b'a' || content[3] == b'\n'));
            let initially: usize = kani::any();
            kani::assume(initially <= $len);
            let lines = count_lines(&content, $len);
            unsafe {
                FILES[0] = SymFile { content, len: $len, visible: initially, pos: 0, growing: true };
                MAX_STALLS = 2;
                READ_BUDGET = $len + 2 + lines + 1;
            }
            let file = unsafe { File::from_raw_fd(3) };
            let mut it = ManuallyDrop::new(FollowFileIterator::new(BufReader::new(file)));
            it.line.reserve(8);
            let i0 = ManuallyDrop::new(if lines > 0 { it.next() } else { None });
            let i1 = ManuallyDrop::new(if lines > 1 { it.next() } else { None });
            let i2 = ManuallyDrop::new(if lines > 2 { it.next() } else { None });
            if lines > 0 { assert!(i0.is_some() && item_is(&i0, &content, ref_line(&content, $len, 0)), "C10 the first item is the first completed line, byte for byte"); }
            if lines > 1 { assert!(i1.is_some() && item_is(&i1, &content, ref_line(&content, $len, 1)), "C10 the second item is the second completed line, byte for byte"); }
            if lines > 2 { assert!(i2.is_some() && item_is(&i2, &content, ref_line(&content, $len, 2)), "C10 the third item is the third completed line, byte for byte"); }
            kani::cover!(lines == 2, "follow: two lines delivered reachable");
            kani::cover!(lines >= 1 && initially == 0 && it.reader.stalls() >= 1, "follow: line delivered after appends with an idle poll reachable");
        }
    };
}
follow_harness!(c10_follow_len2, 2, 8, false);
follow_harness!(c10_follow_len3, 3, 10, false);
follow_harness!(c10_follow_schedule_len2, 2, 8, true);
follow_harness!(c10_follow_schedule_len4, 4, 12, true);

#[cfg(test)]
#[path = "/verif/.cache/playback/helpers.rs"]
mod playback_gen;

// Vec-backed stand-ins for the std / fnv hash containers, mounted under cfg(kani) in the few source files
// whose container use a harness path crosses (hooks: an added `#[cfg(not(kani))]` above the original
// `use` line plus a `#[cfg(kani)] use crate::verif_kani::shim::...` twin).  They implement the documented
// contract of the containers (membership and lookup by `==`; at most one entry per key) and nothing that
// depends on hashing or iteration order; that equal keys hash equally is decided separately in C16.
// hashbrown itself costs 90-290 s of symbolic execution per operation (DESIGN.md probes 10-12).
#![allow(dead_code)]

use std::borrow::Borrow;
use std::iter::FromIterator;

#[derive(Debug, Clone)]
pub struct HashMap<K, V> {
    items: Vec<(K, V)>,
}

impl<K, V> HashMap<K, V> {
    // pre-allocated: a growing Vec reallocates (malloc + copy of a symbolic-sized array), which is what makes
    // even twelve inserts explode in CBMC
    pub fn new() -> Self { HashMap { items: Vec::with_capacity(32) } }
    pub fn len(&self) -> usize { self.items.len() }
    pub fn is_empty(&self) -> bool { self.items.is_empty() }
    pub fn values(&self) -> impl Iterator<Item = &V> { self.items.iter().map(|kv| &kv.1) }
    pub fn keys(&self) -> impl Iterator<Item = &K> { self.items.iter().map(|kv| &kv.0) }
    pub fn iter(&self) -> impl Iterator<Item = (&K, &V)> { self.items.iter().map(|kv| (&kv.0, &kv.1)) }
}

impl<K, V> HashMap<K, V> {
    /// Harness-only: a map whose entries live in a caller-owned (stack) array.  It must never be dropped or grown
    /// (harnesses keep it inside ManuallyDrop): with the entries on the stack CBMC sees their discriminants as
    /// constants instead of exploring every variant of every entry.
    pub unsafe fn from_raw_entries(ptr: *mut (K, V), len: usize) -> Self { HashMap { items: Vec::from_raw_parts(ptr, len, len) } }
}

impl<K, V> Default for HashMap<K, V> {
    fn default() -> Self { HashMap::new() }
}

impl<K: PartialEq, V> HashMap<K, V> {
    /// Appends without looking for an existing entry (a scan per insert makes building a 12-entry table cost
    /// minutes in CBMC); lookups scan from the newest entry, so the last value inserted for a key wins, as in
    /// std.  Deviation from std: the previous value is not returned and a re-inserted key is kept twice
    /// (visible to len / keys / values) - no code on a harness path relies on either.
    pub fn insert(&mut self, key: K, value: V) -> Option<V> {
        self.items.push((key, value));
        None
    }

    pub fn get<Q: ?Sized>(&self, key: &Q) -> Option<&V> where K: Borrow<Q>, Q: PartialEq {
        let mut i = self.items.len();
        while i > 0 {
            i -= 1;
            if self.items[i].0.borrow() == key {
                return Some(&self.items[i].1);
            }
        }
        None
    }

    pub fn get_mut<Q: ?Sized>(&mut self, key: &Q) -> Option<&mut V> where K: Borrow<Q>, Q: PartialEq {
        let mut i = self.items.len();
        while i > 0 {
            i -= 1;
            if self.items[i].0.borrow() == key {
                return Some(&mut self.items[i].1);
            }
        }
        None
    }

    pub fn contains_key<Q: ?Sized>(&self, key: &Q) -> bool where K: Borrow<Q>, Q: PartialEq {
        self.get(key).is_some()
    }
}

impl<K: PartialEq, V> FromIterator<(K, V)> for HashMap<K, V> {
    fn from_iter<I: IntoIterator<Item = (K, V)>>(iter: I) -> Self {
        let mut m = HashMap::new();
        for (k, v) in iter {
            m.insert(k, v);
        }
        m
    }
}

impl<'a, K, V> IntoIterator for &'a HashMap<K, V> {
    type Item = (&'a K, &'a V);
    type IntoIter = std::iter::Map<std::slice::Iter<'a, (K, V)>, fn(&'a (K, V)) -> (&'a K, &'a V)>;
    fn into_iter(self) -> Self::IntoIter {
        fn split<'b, K, V>(kv: &'b (K, V)) -> (&'b K, &'b V) { (&kv.0, &kv.1) }
        self.items.iter().map(split as fn(&'a (K, V)) -> (&'a K, &'a V))
    }
}

impl<K: PartialEq, Q: ?Sized + PartialEq, V> std::ops::Index<&Q> for HashMap<K, V> where K: Borrow<Q> {
    type Output = V;
    fn index(&self, key: &Q) -> &V { self.get(key).expect("no entry found for key") }
}

#[derive(Debug, Clone)]
pub struct HashSet<T> {
    items: Vec<T>,
}

impl<T> HashSet<T> {
    pub fn new() -> Self { HashSet { items: Vec::with_capacity(32) } }
    pub fn len(&self) -> usize { self.items.len() }
    pub fn iter(&self) -> std::slice::Iter<'_, T> { self.items.iter() }
}

impl<T> Default for HashSet<T> {
    fn default() -> Self { HashSet::new() }
}

impl<T: PartialEq> HashSet<T> {
    pub fn contains<Q: ?Sized>(&self, value: &Q) -> bool where T: Borrow<Q>, Q: PartialEq {
        let mut i = 0;
        while i < self.items.len() {
            if self.items[i].borrow() == value {
                return true;
            }
            i += 1;
        }
        false
    }

    pub fn insert(&mut self, value: T) -> bool {
        if self.contains(&value) {
            false
        } else {
            self.items.push(value);
            true
        }
    }
}

impl<T: PartialEq> FromIterator<T> for HashSet<T> {
    fn from_iter<I: IntoIterator<Item = T>>(iter: I) -> Self {
        let mut s = HashSet::new();
        for x in iter {
            s.insert(x);
        }
        s
    }
}

pub type FnvHashSet<T> = HashSet<T>;

/// I/O shim: `BufReader<File>` as *environment*.  Mounted under cfg(kani) in src/helpers.rs and
/// src/executor.rs instead of std::io::BufReader.  A reader is a window on one of two symbolic files
/// (selected by the raw fd of the `File` it was built from): content bytes, a read position and a visible
/// length that every read may advance (= a writer appending while we read).  `read_line` implements the
/// documented contract of `BufRead::read_line`: consume the unread visible bytes up to and including the
/// first `\n` (all of them if there is none), append them to the string if they are UTF-8, otherwise return
/// InvalidData leaving the string untouched; Ok(0) at end of (visible) file.  A global budget of reads
/// stands for "the follower is eventually stopped": when it is used up, reads fail.
pub mod io {
    use std::io::{BufRead, ErrorKind, Read, Result, Seek, SeekFrom};
    use std::os::unix::io::AsRawFd;

    pub const MAX_FILE: usize = 4;

    #[derive(Clone, Copy)]
    pub struct SymFile {
        pub content: [u8; MAX_FILE],
        pub len: usize,        // final length of the file
        pub visible: usize,    // bytes written so far (<= len)
        pub pos: usize,        // read position (<= visible)
        pub growing: bool,     // may `visible` advance between reads?
    }

    // Set by the harness before the readers are built and only *read* afterwards: every piece of mutable state
    // (position, visible length, counters) lives inside the reader.  (Incrementing a `static mut` from read_line
    // made CBMC report invalid pointers for every String allocated afterwards - reproduced in isolation, not
    // understood; recorded in DESIGN.md §6.2.)
    pub static mut FILES: [SymFile; 2] = [SymFile { content: [0; MAX_FILE], len: 0, visible: 0, pos: 0, growing: false }; 2];
    /// reads a reader may perform; a correct follower needs fewer, so running past it means a lost line (asserted)
    pub static mut READ_BUDGET: usize = 0;
    /// may reads fail (bytes >= 0x80 = "not UTF-8")?  Concretely false in harnesses whose alphabet is ASCII: the
    /// Err paths (and the very expensive drop glue of io::Error in the callers) are then pruned by CBMC.
    pub const ERRORS_ENABLED: bool = false;   // (a compile-time constant: read from a static it is not folded and the Err paths stay)
    /// how many reads at the end of the visible data may find nothing new ("poll between two appends")
    pub static mut MAX_STALLS: usize = 0;

    pub struct BufReader<R> {
        file: SymFile,
        reads: usize,
        stalls: usize,
        _file: std::mem::ManuallyDrop<R>,
    }

    impl<R: AsRawFd> BufReader<R> {
        pub fn new(inner: R) -> BufReader<R> {
            let slot = if inner.as_raw_fd() == 4 { 1 } else { 0 };
            BufReader { file: unsafe { FILES[slot] }, reads: 0, stalls: 0, _file: std::mem::ManuallyDrop::new(inner) }
        }
    }

    impl<R> BufReader<R> {
        pub fn stalls(&self) -> usize { self.stalls }

        fn advance_visibility(&mut self) {
            if self.file.growing {
                let v: usize = kani::any();
                kani::assume(v >= self.file.visible && v <= self.file.len);
                if v == self.file.visible && self.file.pos == self.file.visible && self.file.visible < self.file.len {
                    self.stalls += 1;
                    kani::assume(self.stalls <= unsafe { MAX_STALLS });
                }
                self.file.visible = v;
            }
        }
    }

    impl<R> Read for BufReader<R> {
        fn read(&mut self, buf: &mut [u8]) -> Result<usize> {
            self.advance_visibility();
            let mut n = 0;
            while n < buf.len() && self.file.pos < self.file.visible {
                buf[n] = self.file.content[self.file.pos];
                self.file.pos += 1;
                n += 1;
            }
            Ok(n)
        }
    }

    impl<R> BufRead for BufReader<R> {
        fn fill_buf(&mut self) -> Result<&[u8]> {
            self.advance_visibility();
            Ok(&self.file.content[self.file.pos..self.file.visible])
        }

        fn consume(&mut self, amt: usize) {
            self.file.pos = if self.file.pos + amt > self.file.visible { self.file.visible } else { self.file.pos + amt };
        }

        fn read_line(&mut self, buf: &mut String) -> Result<usize> {
            self.reads += 1;
            if self.reads > unsafe { READ_BUDGET } {
                // the writer makes progress (bounded stalls), so a correct reader needs at most READ_BUDGET reads
                // to deliver what was asked for: running past it means a line was lost and the reader polls forever
                kani::assert(false, "the reader delivers every completed line within the read budget (it does not poll forever)");
                kani::assume(false);
            }
            self.advance_visibility();
            let start = self.file.pos;
            let mut end = self.file.pos;
            let mut valid = true;
            while end < self.file.visible {
                let b = self.file.content[end];
                end += 1;
                if b >= 0x80 { valid = false; }   // the harness alphabets use 0xFF as "not UTF-8"; no multi-byte characters
                if b == b'\n' { break; }
            }
            self.file.pos = end;
            let errors = ERRORS_ENABLED;
            if errors && !valid {
                return Err(ErrorKind::InvalidData.into());
            }
            // one append per read (a push per byte re-checks / regrows the String's capacity every time)
            if (errors || valid) && end > start {
                let mut tmp = [0u8; MAX_FILE];
                let mut n = 0;
                while start + n < end {
                    tmp[n] = self.file.content[start + n];
                    n += 1;
                }
                buf.push_str(unsafe { std::str::from_utf8_unchecked(&tmp[..n]) });
            }
            Ok(end - start)
        }
    }

    impl<R> Seek for BufReader<R> {
        fn seek(&mut self, pos: SeekFrom) -> Result<u64> {
            match pos {
                SeekFrom::Start(p) => { self.file.pos = if (p as usize) < self.file.visible { p as usize } else { self.file.visible }; }
                SeekFrom::End(_) => { self.file.pos = self.file.visible; }
                SeekFrom::Current(_) => {}
            }
            Ok(self.file.pos as u64)
        }
    }
}

// Vec-backed stand-ins for the std / fnv hash containers, mounted under cfg(kani) in the few source files
// whose container use a harness path crosses (hooks: an added `#[cfg(not(kani))]` above the original
// `use` line plus a `#[cfg(kani)] use crate::verif_kani::shim::...` twin).  They implement the documented
// contract of the containers (membership and lookup by `==`; at most one entry per key) and nothing that
// depends on hashing or iteration order; that equal keys hash equally is decided separately in C16.
// hashbrown itself costs 90-290 s of symbolic execution per operation (DESIGN.md probes 10-12).
#![allow(dead_code)]

use std::borrow::Borrow;
use std::iter::FromIterator;

#[derive(Debug, Clone)]
pub struct HashMap<K, V> {
    items: Vec<(K, V)>,
}

impl<K, V> HashMap<K, V> {
    pub fn new() -> Self { HashMap { items: Vec::new() } }
    pub fn len(&self) -> usize { self.items.len() }
    pub fn is_empty(&self) -> bool { self.items.is_empty() }
    pub fn values(&self) -> impl Iterator<Item = &V> { self.items.iter().map(|kv| &kv.1) }
    pub fn keys(&self) -> impl Iterator<Item = &K> { self.items.iter().map(|kv| &kv.0) }
    pub fn iter(&self) -> impl Iterator<Item = (&K, &V)> { self.items.iter().map(|kv| (&kv.0, &kv.1)) }
}

impl<K, V> Default for HashMap<K, V> {
    fn default() -> Self { HashMap::new() }
}

impl<K: PartialEq, V> HashMap<K, V> {
    pub fn insert(&mut self, key: K, value: V) -> Option<V> {
        let mut i = 0;
        while i < self.items.len() {
            if self.items[i].0 == key {
                return Some(std::mem::replace(&mut self.items[i].1, value));
            }
            i += 1;
        }
        self.items.push((key, value));
        None
    }

    pub fn get<Q: ?Sized>(&self, key: &Q) -> Option<&V> where K: Borrow<Q>, Q: PartialEq {
        let mut i = 0;
        while i < self.items.len() {
            if self.items[i].0.borrow() == key {
                return Some(&self.items[i].1);
            }
            i += 1;
        }
        None
    }

    pub fn get_mut<Q: ?Sized>(&mut self, key: &Q) -> Option<&mut V> where K: Borrow<Q>, Q: PartialEq {
        let mut i = 0;
        while i < self.items.len() {
            if self.items[i].0.borrow() == key {
                return Some(&mut self.items[i].1);
            }
            i += 1;
        }
        None
    }

    pub fn contains_key<Q: ?Sized>(&self, key: &Q) -> bool where K: Borrow<Q>, Q: PartialEq {
        self.get(key).is_some()
    }
}

impl<K: PartialEq, V> FromIterator<(K, V)> for HashMap<K, V> {
    fn from_iter<I: IntoIterator<Item = (K, V)>>(iter: I) -> Self {
        let mut m = HashMap::new();
        for (k, v) in iter {
            m.insert(k, v);
        }
        m
    }
}

impl<'a, K, V> IntoIterator for &'a HashMap<K, V> {
    type Item = (&'a K, &'a V);
    type IntoIter = std::iter::Map<std::slice::Iter<'a, (K, V)>, fn(&'a (K, V)) -> (&'a K, &'a V)>;
    fn into_iter(self) -> Self::IntoIter {
        fn split<'b, K, V>(kv: &'b (K, V)) -> (&'b K, &'b V) { (&kv.0, &kv.1) }
        self.items.iter().map(split as fn(&'a (K, V)) -> (&'a K, &'a V))
    }
}

impl<K: PartialEq, Q: ?Sized + PartialEq, V> std::ops::Index<&Q> for HashMap<K, V> where K: Borrow<Q> {
    type Output = V;
    fn index(&self, key: &Q) -> &V { self.get(key).expect("no entry found for key") }
}

#[derive(Debug, Clone)]
pub struct HashSet<T> {
    items: Vec<T>,
}

impl<T> HashSet<T> {
    pub fn new() -> Self { HashSet { items: Vec::new() } }
    pub fn len(&self) -> usize { self.items.len() }
    pub fn iter(&self) -> std::slice::Iter<'_, T> { self.items.iter() }
}

impl<T> Default for HashSet<T> {
    fn default() -> Self { HashSet::new() }
}

impl<T: PartialEq> HashSet<T> {
    pub fn contains<Q: ?Sized>(&self, value: &Q) -> bool where T: Borrow<Q>, Q: PartialEq {
        let mut i = 0;
        while i < self.items.len() {
            if self.items[i].borrow() == value {
                return true;
            }
            i += 1;
        }
        false
    }

    pub fn insert(&mut self, value: T) -> bool {
        if self.contains(&value) {
            false
        } else {
            self.items.push(value);
            true
        }
    }
}

impl<T: PartialEq> FromIterator<T> for HashSet<T> {
    fn from_iter<I: IntoIterator<Item = T>>(iter: I) -> Self {
        let mut s = HashSet::new();
        for x in iter {
            s.insert(x);
        }
        s
    }
}

pub type FnvHashSet<T> = HashSet<T>;

/// I/O shim: `BufReader<File>` as *environment*.  Mounted under cfg(kani) in src/helpers.rs and
/// src/executor.rs instead of std::io::BufReader.  A reader is a window on one of two symbolic files
/// (selected by the raw fd of the `File` it was built from): content bytes, a read position and a visible
/// length that every read may advance (= a writer appending while we read).  `read_line` implements the
/// documented contract of `BufRead::read_line`: consume the unread visible bytes up to and including the
/// first `\n` (all of them if there is none), append them to the string if they are UTF-8, otherwise return
/// InvalidData leaving the string untouched; Ok(0) at end of (visible) file.  A global budget of reads
/// stands for "the follower is eventually stopped": when it is used up, reads fail.
pub mod io {
    use std::io::{BufRead, ErrorKind, Read, Result, Seek, SeekFrom};
    use std::marker::PhantomData;
    use std::os::unix::io::AsRawFd;

    pub const MAX_FILE: usize = 4;

    #[derive(Clone, Copy)]
    pub struct SymFile {
        pub content: [u8; MAX_FILE],
        pub len: usize,        // final length of the file
        pub visible: usize,    // bytes written so far (<= len)
        pub pos: usize,        // read position (<= visible)
        pub growing: bool,     // may `visible` advance between reads?
    }

    pub static mut FILES: [SymFile; 2] = [SymFile { content: [0; MAX_FILE], len: 0, visible: 0, pos: 0, growing: false }; 2];
    pub static mut READ_BUDGET: usize = 0;
    pub static mut READ_CALLS: usize = 0;

    pub struct BufReader<R> {
        slot: usize,
        _inner: PhantomData<R>,
        _file: std::mem::ManuallyDrop<R>,
    }

    impl<R: AsRawFd> BufReader<R> {
        pub fn new(inner: R) -> BufReader<R> {
            let slot = if inner.as_raw_fd() == 4 { 1 } else { 0 };
            BufReader { slot, _inner: PhantomData, _file: std::mem::ManuallyDrop::new(inner) }
        }
    }

    impl<R> BufReader<R> {
        fn advance_visibility(&mut self) {
            unsafe {
                let f = &mut FILES[self.slot];
                if f.growing {
                    let v: usize = kani::any();
                    kani::assume(v >= f.visible && v <= f.len);
                    f.visible = v;
                }
            }
        }
    }

    impl<R> Read for BufReader<R> {
        fn read(&mut self, buf: &mut [u8]) -> Result<usize> {
            self.advance_visibility();
            unsafe {
                let f = &mut FILES[self.slot];
                let mut n = 0;
                while n < buf.len() && f.pos < f.visible {
                    buf[n] = f.content[f.pos];
                    f.pos += 1;
                    n += 1;
                }
                Ok(n)
            }
        }
    }

    impl<R> BufRead for BufReader<R> {
        fn fill_buf(&mut self) -> Result<&[u8]> {
            self.advance_visibility();
            unsafe {
                let f = &FILES[self.slot];
                Ok(&f.content[f.pos..f.visible])
            }
        }

        fn consume(&mut self, amt: usize) {
            unsafe {
                let f = &mut FILES[self.slot];
                f.pos = if f.pos + amt > f.visible { f.visible } else { f.pos + amt };
            }
        }

        fn read_line(&mut self, buf: &mut String) -> Result<usize> {
            unsafe {
                READ_CALLS += 1;
                if READ_CALLS > READ_BUDGET {
                    return Err(ErrorKind::Interrupted.into());
                }
            }
            self.advance_visibility();
            unsafe {
                let f = &mut FILES[self.slot];
                let start = f.pos;
                let mut end = f.pos;
                let mut valid = true;
                while end < f.visible {
                    let b = f.content[end];
                    end += 1;
                    if b >= 0x80 { valid = false; }   // the harness alphabets use 0xFF as "not UTF-8"; no multi-byte characters
                    if b == b'\n' { break; }
                }
                f.pos = end;
                if !valid {
                    return Err(ErrorKind::InvalidData.into());
                }
                let mut i = start;
                while i < end {
                    buf.push(f.content[i] as char);
                    i += 1;
                }
                Ok(end - start)
            }
        }
    }

    impl<R> Seek for BufReader<R> {
        fn seek(&mut self, pos: SeekFrom) -> Result<u64> {
            unsafe {
                let f = &mut FILES[self.slot];
                match pos {
                    SeekFrom::Start(p) => { f.pos = if (p as usize) < f.visible { p as usize } else { f.visible }; }
                    SeekFrom::End(_) => { f.pos = f.visible; }
                    SeekFrom::Current(_) => {}
                }
                Ok(f.pos as u64)
            }
        }
    }
}

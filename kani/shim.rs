// Vec-backed stand-ins for the std / fnv hash containers, mounted under cfg(kani) in the few source files
// whose container use a harness path crosses (hooks: an added `#[cfg(not(kani))]` above the original
// `use` line plus a `#[cfg(kani)] use crate::verif_kani::shim::...` twin).  They implement the documented
// contract of the containers (membership and lookup by `==`; at most one entry per key) and nothing that
// depends on hashing or iteration order; that equal keys hash equally is decided separately in C16.
// hashbrown itself costs 90-290 s of symbolic execution per operation (DESIGN.md probes 10-12).
#![allow(dead_code)]

use std::borrow::Borrow;
use std::iter::FromIterator;

#[derive(Debug, Clone)]
pub struct HashMap<K, V> {
    items: Vec<(K, V)>,
}

impl<K, V> HashMap<K, V> {
    pub fn new() -> Self { HashMap { items: Vec::new() } }
    pub fn len(&self) -> usize { self.items.len() }
    pub fn is_empty(&self) -> bool { self.items.is_empty() }
    pub fn values(&self) -> impl Iterator<Item = &V> { self.items.iter().map(|kv| &kv.1) }
    pub fn keys(&self) -> impl Iterator<Item = &K> { self.items.iter().map(|kv| &kv.0) }
    pub fn iter(&self) -> impl Iterator<Item = (&K, &V)> { self.items.iter().map(|kv| (&kv.0, &kv.1)) }
}

impl<K, V> Default for HashMap<K, V> {
    fn default() -> Self { HashMap::new() }
}

impl<K: PartialEq, V> HashMap<K, V> {
    pub fn insert(&mut self, key: K, value: V) -> Option<V> {
        let mut i = 0;
        while i < self.items.len() {
            if self.items[i].0 == key {
                return Some(std::mem::replace(&mut self.items[i].1, value));
            }
            i += 1;
        }
        self.items.push((key, value));
        None
    }

    pub fn get<Q: ?Sized>(&self, key: &Q) -> Option<&V> where K: Borrow<Q>, Q: PartialEq {
        let mut i = 0;
        while i < self.items.len() {
            if self.items[i].0.borrow() == key {
                return Some(&self.items[i].1);
            }
            i += 1;
        }
        None
    }

    pub fn get_mut<Q: ?Sized>(&mut self, key: &Q) -> Option<&mut V> where K: Borrow<Q>, Q: PartialEq {
        let mut i = 0;
        while i < self.items.len() {
            if self.items[i].0.borrow() == key {
                return Some(&mut self.items[i].1);
            }
            i += 1;
        }
        None
    }

    pub fn contains_key<Q: ?Sized>(&self, key: &Q) -> bool where K: Borrow<Q>, Q: PartialEq {
        self.get(key).is_some()
    }
}

impl<K: PartialEq, V> FromIterator<(K, V)> for HashMap<K, V> {
    fn from_iter<I: IntoIterator<Item = (K, V)>>(iter: I) -> Self {
        let mut m = HashMap::new();
        for (k, v) in iter {
            m.insert(k, v);
        }
        m
    }
}

impl<'a, K, V> IntoIterator for &'a HashMap<K, V> {
    type Item = (&'a K, &'a V);
    type IntoIter = std::iter::Map<std::slice::Iter<'a, (K, V)>, fn(&'a (K, V)) -> (&'a K, &'a V)>;
    fn into_iter(self) -> Self::IntoIter {
        fn split<'b, K, V>(kv: &'b (K, V)) -> (&'b K, &'b V) { (&kv.0, &kv.1) }
        self.items.iter().map(split as fn(&'a (K, V)) -> (&'a K, &'a V))
    }
}

impl<K: PartialEq, Q: ?Sized + PartialEq, V> std::ops::Index<&Q> for HashMap<K, V> where K: Borrow<Q> {
    type Output = V;
    fn index(&self, key: &Q) -> &V { self.get(key).expect("no entry found for key") }
}

#[derive(Debug, Clone)]
pub struct HashSet<T> {
    items: Vec<T>,
}

impl<T> HashSet<T> {
    pub fn new() -> Self { HashSet { items: Vec::new() } }
    pub fn len(&self) -> usize { self.items.len() }
    pub fn iter(&self) -> std::slice::Iter<'_, T> { self.items.iter() }
}

impl<T> Default for HashSet<T> {
    fn default() -> Self { HashSet::new() }
}

impl<T: PartialEq> HashSet<T> {
    pub fn contains<Q: ?Sized>(&self, value: &Q) -> bool where T: Borrow<Q>, Q: PartialEq {
        let mut i = 0;
        while i < self.items.len() {
            if self.items[i].borrow() == value {
                return true;
            }
            i += 1;
        }
        false
    }

    pub fn insert(&mut self, value: T) -> bool {
        if self.contains(&value) {
            false
        } else {
            self.items.push(value);
            true
        }
    }
}

impl<T: PartialEq> FromIterator<T> for HashSet<T> {
    fn from_iter<I: IntoIterator<Item = T>>(iter: I) -> Self {
        let mut s = HashSet::new();
        for x in iter {
            s.insert(x);
        }
        s
    }
}

pub type FnvHashSet<T> = HashSet<T>;

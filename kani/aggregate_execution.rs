// cfg(kani) child module of src/execution/aggregate_execution.rs: the per-group fold kernels
// (GroupAggregator::default / update / update_value / is_null) under the driver protocol of
// update_aggregate + execute_result.  C04 (value by definition), C15 (order-insensitive), C09 (total).
#![allow(dead_code, unused_imports, unused_macros)]

use std::mem::ManuallyDrop;

use crate::model::{Aggregate, ExpressionTree, Float, Value, ValueType};
use crate::verif_kani::common::*;

use super::GroupAggregator;

/// What the engine shows for one group after feeding `vals` in order (protocol copied from
/// AggregateExecutionEngine::update_aggregate and execute_result; it is an assumption of the check):
///  - the aggregator is created lazily from the first value that arrives (NULL or not),
///  - update() only for non-NULL values, its Some(result) overwrites the group's cell,
///  - a NULL value sets the cell to NULL only while the aggregator `is_null()`,
///  - before a table is shown, update_value()'s Some(result) overwrites the cell.
/// None = the group has no cell for this aggregate; Err = the engine reports an error.
const K_SUM: u8 = 0;
const K_AVG: u8 = 1;
const K_VAR: u8 = 2;
const K_PCT: u8 = 3;
const K_AND: u8 = 4;
const K_OR: u8 = 5;

/// (sum, sum of squares, count) of the STDDEV / VARIANCE aggregator after the last fold3 call
static mut LAST_VARIANCE_STATE: (Option<i64>, Option<i64>, i64) = (None, None, 0);

fn fold3(kind: u8, agg: &Aggregate, v0: &Value, v1: &Value, v2: &Value, n: usize) -> Result<Option<MD<Value>>, ()> {
    // The aggregator is built by the real GroupAggregator::default and then re-stated field by field from its
    // *expected* initial contents (asserted equal): CBMC then works with literal enum values whose discriminants
    // are constants; otherwise every update() explores all variants, including PERCENTILE's slice sort.
    let built = ManuallyDrop::new(GroupAggregator::default(agg, v0));
    let first_is_int = matches!(v0, Value::Int(_));
    let first_is_float = matches!(v0, Value::Float(_));
    let zero = || if first_is_int { Value::Int(0) } else if first_is_float { Value::Float(Float(0.0)) } else { Value::Null };
    let same_zero = |v: &Value| match v { Value::Int(0) => first_is_int, Value::Float(f) => first_is_float && f.0 == 0.0, Value::Null => !first_is_int && !first_is_float, _ => false };
    let mut aggregator = ManuallyDrop::new(match (kind, &*built) {
        (K_SUM, GroupAggregator::Sum(x)) => { assert!(same_zero(x), "C04 SUM starts from the zero of the first value's type (NULL if that value is NULL)"); GroupAggregator::Sum(zero()) }
        (K_AVG, GroupAggregator::Average { sum, count }) => { assert!(same_zero(sum) && *count == 0, "C04 AVG starts from zero"); GroupAggregator::Average { sum: zero(), count: 0 } }
        (K_VAR, GroupAggregator::StandardDeviation { sum, sum_square, count, is_variance }) => {
            assert!(same_zero(sum) && same_zero(sum_square) && *count == 0 && *is_variance, "C04 VARIANCE starts from zero");
            GroupAggregator::StandardDeviation { sum: zero(), sum_square: zero(), count: 0, is_variance: true }
        }
        (K_PCT, GroupAggregator::Percentile { values, percentile }) => { assert!(values.is_empty(), "C04 PERCENTILE starts empty"); GroupAggregator::Percentile { values: Vec::new(), percentile: *percentile } }
        (K_AND, GroupAggregator::BoolAnd { value }) => { assert!(value.is_none(), "C04 BOOL_AND starts empty"); GroupAggregator::BoolAnd { value: None } }
        (K_OR, GroupAggregator::BoolOr { value }) => { assert!(value.is_none(), "C04 BOOL_OR starts empty"); GroupAggregator::BoolOr { value: None } }
        _ => { assert!(false, "C04 GroupAggregator::default builds the aggregator of the requested aggregate"); return Err(()); }
    });
    let mut cell: Option<MD<Value>> = None;
    macro_rules! step {
        ($v:expr) => {
            if $v.is_not_null() {
                let r = ManuallyDrop::new(aggregator.update(unsafe { std::ptr::read($v as *const Value) }));
                match &*r {
                    Ok(Some(value)) => { cell = Some(ManuallyDrop::new(unsafe { std::ptr::read(value as *const Value) })); }
                    Ok(None) => {}
                    Err(_) => { return Err(()); }
                }
            } else if aggregator.is_null() {
                cell = Some(ManuallyDrop::new(Value::Null));
            }
        };
    }
    if n > 0 { step!(v0); }
    if n > 1 { step!(v1); }
    if n > 2 { step!(v2); }
    if let GroupAggregator::StandardDeviation { sum, sum_square, count, .. } = &*aggregator {
        let as_int = |v: &Value| if let Value::Int(x) = v { Some(*x) } else { None };
        unsafe { LAST_VARIANCE_STATE = (as_int(sum), as_int(sum_square), *count); }
    }
    let r = ManuallyDrop::new(aggregator.update_value());
    match &*r {
        Ok(Some(value)) => { cell = Some(ManuallyDrop::new(unsafe { std::ptr::read(value as *const Value) })); }
        Ok(None) => {}
        Err(_) => { return Err(()); }
    }
    Ok(cell)
}

fn pick<'a>(k: u8, a: &'a Value, b: &'a Value, c: &'a Value) -> (&'a Value, &'a Value, &'a Value) {
    match k {
        0 => (a, b, c),
        1 => (a, c, b),
        2 => (b, a, c),
        3 => (b, c, a),
        4 => (c, a, b),
        _ => (c, b, a),
    }
}

fn same_cell(x: &Result<Option<MD<Value>>, ()>, y: &Result<Option<MD<Value>>, ()>) -> bool {
    match (x, y) {
        (Err(_), Err(_)) => true,
        (Ok(None), Ok(None)) => true,
        (Ok(Some(a)), Ok(Some(b))) => **a == **b,
        _ => false,
    }
}

fn int_or_null(is_null: bool, x: i64) -> MD<Value> {
    ManuallyDrop::new(if is_null { Value::Null } else { Value::Int(x) })
}

fn float_or_null(is_null: bool, x: i64) -> MD<Value> {
    ManuallyDrop::new(if is_null { Value::Null } else { Value::Float(Float(x as f64)) })
}

fn bool_or_null(is_null: bool, x: bool) -> MD<Value> {
    ManuallyDrop::new(if is_null { Value::Null } else { Value::Bool(x) })
}

fn cell_int(c: &Result<Option<MD<Value>>, ()>) -> Option<i64> {
    if let Ok(Some(v)) = c { if let Value::Int(x) = &**v { return Some(*x); } }
    None
}
fn cell_float(c: &Result<Option<MD<Value>>, ()>) -> Option<f64> {
    if let Ok(Some(v)) = c { if let Value::Float(x) = &**v { return Some(x.0); } }
    None
}
fn cell_bool(c: &Result<Option<MD<Value>>, ()>) -> Option<bool> {
    if let Ok(Some(v)) = c { if let Value::Bool(x) = &**v { return Some(*x); } }
    None
}
fn cell_is_null(c: &Result<Option<MD<Value>>, ()>) -> bool {
    if let Ok(Some(v)) = c { return v.is_null(); }
    false
}

const SMALL: i64 = 1 << 20;

/// Numeric folds over three rows with a *concrete* NULL pattern (a symbolic pattern makes the variant of every
/// Value symbolic, and CBMC then walks the recursive clone / drop glue on each use) and symbolic small integers
/// (|x| <= 2^20, so every sum and square is exact in i64 and in f64): the cell is the value by definition (C04)
/// and the same for the reversed and the rotated arrival order (C15).
macro_rules! numeric_fold_harness {
    ($name:ident, $agg:expr, $is_float:expr, $kind:expr, $n0:expr, $n1:expr, $n2:expr) => {
        #[kani::proof]
        #[kani::unwind(2)]
        #[kani::stub(alloc::fmt::format, crate::verif_kani::common::stub_format)]
        #[kani::stub(<crate::model::Value as std::clone::Clone>::clone, crate::verif_kani::common::stub_value_clone_scalar)]
        #[kani::stub(chrono::Local::now, crate::verif_kani::common::stub_local_now)]
        #[kani::stub(<chrono::Local as chrono::TimeZone>::offset_from_local_datetime, crate::verif_kani::common::stub_offset_from_local_datetime)]
        #[kani::stub(<chrono::Local as chrono::TimeZone>::offset_from_utc_datetime, crate::verif_kani::common::stub_offset_from_utc_datetime)]
        fn $name() {
            let (n0, n1, n2): (bool, bool, bool) = ($n0, $n1, $n2);
            let x0: i64 = kani::any(); let x1: i64 = kani::any(); let x2: i64 = kani::any();
            // squares (VARIANCE) are 64-bit multiplications, which the SAT solver only handles for narrow operands
            let bound = if $kind == 2 { 8 } else { SMALL };
            kani::assume(x0 >= -bound && x0 <= bound && x1 >= -bound && x1 <= bound && x2 >= -bound && x2 <= bound);
            let (a, b, c) = if $is_float {
                (float_or_null(n0, x0), float_or_null(n1, x1), float_or_null(n2, x2))
            } else {
                (int_or_null(n0, x0), int_or_null(n1, x1), int_or_null(n2, x2))
            };
            let agg = ManuallyDrop::new($agg);
            let base = fold3($kind, &agg, &a, &b, &c, 3);

            // --- C04: value by definition over the non-NULL values
            let cnt = (!n0) as i64 + (!n1) as i64 + (!n2) as i64;
            let sum = (if n0 { 0 } else { x0 }) + (if n1 { 0 } else { x1 }) + (if n2 { 0 } else { x2 });
            let ssq = (if n0 { 0 } else { x0 * x0 }) + (if n1 { 0 } else { x1 * x1 }) + (if n2 { 0 } else { x2 * x2 });
            if cnt == 0 {
                assert!(cell_is_null(&base), "C04 aggregate over no non-NULL value is NULL");
            } else if $kind == 0 {
                if $is_float { assert!(cell_float(&base) == Some(sum as f64), "C04 SUM is the sum of the non-NULL values"); }
                else { assert!(cell_int(&base) == Some(sum), "C04 SUM is the sum of the non-NULL values"); }
            } else if $kind == 1 {
                if $is_float { assert!(cell_float(&base) == Some(sum as f64 / cnt as f64), "C04 AVG is sum / count of the non-NULL values"); }
                else {
                    let avg = cell_int(&base);
                    assert!(avg.is_some(), "C04 AVG of INT values is an INT");
                    let d = sum - avg.unwrap() * cnt;
                    assert!(d > -cnt && d < cnt, "C04 AVG is sum / count of the non-NULL values");
                }
            } else if $is_float {
                let nf = cnt as f64;
                let expected = ((ssq as f64) - ((sum as f64) * (sum as f64)) / nf) / nf;
                assert!(cell_float(&base) == Some(expected), "C04 VARIANCE is (sum x^2 - (sum x)^2 / n) / n over the non-NULL values");
            } else {
                // INT: the cell is f(sum, sum of squares, n) computed in f64 by one closure; the solver decides the three
                // accumulators (the float formula itself is sliced away: symbolic f64 division does not conclude)
                let st = unsafe { LAST_VARIANCE_STATE };
                assert!(st.0 == Some(sum) && st.1 == Some(ssq) && st.2 == cnt, "C04 VARIANCE / STDDEV accumulate sum, sum of squares and count of the non-NULL values");
                assert!(cell_float(&base).is_some(), "C04 VARIANCE of INT values is a REAL");
            }

            // --- C15: other arrival orders give the same cell
            let st_base = unsafe { LAST_VARIANCE_STATE };
            let reversed = fold3($kind, &agg, &c, &b, &a, 3);
            if $kind == 2 && !$is_float {
                let st = unsafe { LAST_VARIANCE_STATE };
                assert!(cnt == 0 || (st.0 == st_base.0 && st.1 == st_base.1 && st.2 == st_base.2), "C15 aggregate is the same for every order of the group's rows");
            } else {
                assert!(same_cell(&base, &reversed), "C15 aggregate is the same for every order of the group's rows");
                let rotated = fold3($kind, &agg, &b, &c, &a, 3);
                assert!(same_cell(&base, &rotated), "C15 aggregate is the same for every order of the group's rows");
            }
            kani::cover!(true, "fold: end reachable");
        }
    };
}
macro_rules! numeric_fold_patterns {
    ($vvv:ident, $nvv:ident, $vnv:ident, $nnn:ident, $agg:expr, $is_float:expr, $kind:expr) => {
        numeric_fold_harness!($vvv, $agg, $is_float, $kind, false, false, false);
        numeric_fold_harness!($nvv, $agg, $is_float, $kind, true, false, false);
        numeric_fold_harness!($vnv, $agg, $is_float, $kind, false, true, false);
        numeric_fold_harness!($nnn, $agg, $is_float, $kind, true, true, true);
    };
}
numeric_fold_patterns!(c04_fold_sum_int_vvv, c04_fold_sum_int_nvv, c04_fold_sum_int_vnv, c04_fold_sum_int_nnn, Aggregate::Sum(ExpressionTree::Wildcard), false, 0);
numeric_fold_patterns!(c04_fold_sum_float_vvv, c04_fold_sum_float_nvv, c04_fold_sum_float_vnv, c04_fold_sum_float_nnn, Aggregate::Sum(ExpressionTree::Wildcard), true, 0);
numeric_fold_patterns!(c04_fold_avg_int_vvv, c04_fold_avg_int_nvv, c04_fold_avg_int_vnv, c04_fold_avg_int_nnn, Aggregate::Average(ExpressionTree::Wildcard), false, 1);
numeric_fold_patterns!(c04_fold_avg_float_vvv, c04_fold_avg_float_nvv, c04_fold_avg_float_vnv, c04_fold_avg_float_nnn, Aggregate::Average(ExpressionTree::Wildcard), true, 1);
numeric_fold_patterns!(c04_fold_variance_int_vvv, c04_fold_variance_int_nvv, c04_fold_variance_int_vnv, c04_fold_variance_int_nnn, Aggregate::StandardDeviation(ExpressionTree::Wildcard, true), false, 2);
numeric_fold_patterns!(c04_fold_variance_float_vvv, c04_fold_variance_float_nvv, c04_fold_variance_float_vnv, c04_fold_variance_float_nnn, Aggregate::StandardDeviation(ExpressionTree::Wildcard, true), true, 2);

macro_rules! bool_fold_harness {
    ($name:ident, $agg:expr, $is_and:expr, $n0:expr, $n1:expr, $n2:expr) => {
        #[kani::proof]
        #[kani::unwind(2)]
        #[kani::stub(alloc::fmt::format, crate::verif_kani::common::stub_format)]
        #[kani::stub(<crate::model::Value as std::clone::Clone>::clone, crate::verif_kani::common::stub_value_clone_scalar)]
        #[kani::stub(chrono::Local::now, crate::verif_kani::common::stub_local_now)]
        #[kani::stub(<chrono::Local as chrono::TimeZone>::offset_from_local_datetime, crate::verif_kani::common::stub_offset_from_local_datetime)]
        #[kani::stub(<chrono::Local as chrono::TimeZone>::offset_from_utc_datetime, crate::verif_kani::common::stub_offset_from_utc_datetime)]
        fn $name() {
            let (n0, n1, n2): (bool, bool, bool) = ($n0, $n1, $n2);
            let x0: bool = kani::any(); let x1: bool = kani::any(); let x2: bool = kani::any();
            let (a, b, c) = (bool_or_null(n0, x0), bool_or_null(n1, x1), bool_or_null(n2, x2));
            let agg = ManuallyDrop::new($agg);
            let kind = if $is_and { K_AND } else { K_OR };
            let base = fold3(kind, &agg, &a, &b, &c, 3);
            let cnt = (!n0) as i64 + (!n1) as i64 + (!n2) as i64;
            if cnt == 0 {
                assert!(cell_is_null(&base), "C04 aggregate over no non-NULL value is NULL");
            } else {
                let expected = if $is_and { (n0 || x0) && (n1 || x1) && (n2 || x2) } else { (!n0 && x0) || (!n1 && x1) || (!n2 && x2) };
                assert!(cell_bool(&base) == Some(expected), "C04 BOOL_AND / BOOL_OR fold the non-NULL values");
            }
            let reversed = fold3(kind, &agg, &c, &b, &a, 3);
            assert!(same_cell(&base, &reversed), "C15 aggregate is the same for every order of the group's rows");
            let rotated = fold3(kind, &agg, &b, &c, &a, 3);
            assert!(same_cell(&base, &rotated), "C15 aggregate is the same for every order of the group's rows");
            kani::cover!(true, "fold: end reachable");
        }
    };
}
bool_fold_harness!(c04_fold_bool_and_vvv, Aggregate::BoolAnd(ExpressionTree::Wildcard), true, false, false, false);
bool_fold_harness!(c04_fold_bool_and_nvv, Aggregate::BoolAnd(ExpressionTree::Wildcard), true, true, false, false);
bool_fold_harness!(c04_fold_bool_and_nnn, Aggregate::BoolAnd(ExpressionTree::Wildcard), true, true, true, true);
bool_fold_harness!(c04_fold_bool_or_vvv, Aggregate::BoolOr(ExpressionTree::Wildcard), false, false, false, false);
bool_fold_harness!(c04_fold_bool_or_nvv, Aggregate::BoolOr(ExpressionTree::Wildcard), false, true, false, false);
bool_fold_harness!(c04_fold_bool_or_nnn, Aggregate::BoolOr(ExpressionTree::Wildcard), false, true, true, true);

/// Full-range INT sums: the running sum / square must not panic or wrap (C09); an overflow has to
/// surface as an error (C04: "computed from exactly the rows of that group", never a wrapped number).
macro_rules! overflow_fold_harness {
    ($name:ident, $agg:expr, $kind:expr) => {
        #[kani::proof]
        #[kani::unwind(2)]
        #[kani::stub(alloc::fmt::format, crate::verif_kani::common::stub_format)]
        #[kani::stub(<crate::model::Value as std::clone::Clone>::clone, crate::verif_kani::common::stub_value_clone_scalar)]
        #[kani::stub(chrono::Local::now, crate::verif_kani::common::stub_local_now)]
        #[kani::stub(<chrono::Local as chrono::TimeZone>::offset_from_local_datetime, crate::verif_kani::common::stub_offset_from_local_datetime)]
        #[kani::stub(<chrono::Local as chrono::TimeZone>::offset_from_utc_datetime, crate::verif_kani::common::stub_offset_from_utc_datetime)]
        fn $name() {
            let x0: i64 = kani::any();
            let x1: i64 = kani::any();
            let a = ManuallyDrop::new(Value::Int(x0));
            let b = ManuallyDrop::new(Value::Int(x1));
            let agg = ManuallyDrop::new($agg);
            let r = fold3($kind, &agg, &a, &b, &a, 2);
            if x0.checked_add(x1).is_none() {
                assert!(r.is_err(), "C09 an overflowing running sum is reported as an error");
            }
            kani::cover!(x0.checked_add(x1).is_none(), "fold overflow: overflow reachable");
        }
    };
}
overflow_fold_harness!(c09_fold_sum_int_overflow, Aggregate::Sum(ExpressionTree::Wildcard), K_SUM);
overflow_fold_harness!(c09_fold_avg_int_overflow, Aggregate::Average(ExpressionTree::Wildcard), K_AVG);

/// `<[Value]>::sort` as environment: std's sort is trusted; this contract stub sorts up to 3 elements ascending by `Ord`.
fn stub_sort_values<T: Ord>(v: &mut [T]) {
    let n = v.len();
    if n >= 2 && v[0] > v[1] { v.swap(0, 1); }
    if n >= 3 && v[1] > v[2] { v.swap(1, 2); }
    if n >= 2 && v[0] > v[1] { v.swap(0, 1); }
    kani::assume(n <= 3);
}

/// PERCENTILE(p) over 1..3 INT values: for every p in [0, 1] the cell is an element of the group,
/// namely sorted[floor(p * n)] (the last element for p = 1.0), for every arrival order.
macro_rules! percentile_harness {
    ($name:ident, $n:expr) => {
        #[kani::proof]
        #[kani::unwind(4)]
        #[kani::stub(<[crate::model::Value]>::sort, stub_sort_values)]
        #[kani::stub(alloc::fmt::format, crate::verif_kani::common::stub_format)]
        #[kani::stub(<crate::model::Value as std::clone::Clone>::clone, crate::verif_kani::common::stub_value_clone_scalar)]
        #[kani::stub(chrono::Local::now, crate::verif_kani::common::stub_local_now)]
        #[kani::stub(<chrono::Local as chrono::TimeZone>::offset_from_local_datetime, crate::verif_kani::common::stub_offset_from_local_datetime)]
        #[kani::stub(<chrono::Local as chrono::TimeZone>::offset_from_utc_datetime, crate::verif_kani::common::stub_offset_from_utc_datetime)]
        fn $name() {
            let p: f64 = kani::any();
            kani::assume(p >= 0.0 && p <= 1.0);
            let x0: i64 = kani::any(); let x1: i64 = kani::any(); let x2: i64 = kani::any();
            let a = ManuallyDrop::new(Value::Int(x0));
            let b = ManuallyDrop::new(Value::Int(x1));
            let c = ManuallyDrop::new(Value::Int(x2));
            let agg = ManuallyDrop::new(Aggregate::Percentile(ExpressionTree::Wildcard, Float(p)));
            let base = fold3(K_PCT, &agg, &a, &b, &c, $n);
            // reference: sort the first n values
            let (mut s0, mut s1, mut s2) = (x0, if $n > 1 { x1 } else { i64::MAX }, if $n > 2 { x2 } else { i64::MAX });
            if s0 > s1 { std::mem::swap(&mut s0, &mut s1); }
            if s1 > s2 { std::mem::swap(&mut s1, &mut s2); }
            if s0 > s1 { std::mem::swap(&mut s0, &mut s1); }
            let mut idx = (p * ($n as f64)) as usize;
            if idx >= $n { idx = $n - 1; }
            let expected = if idx == 0 { s0 } else if idx == 1 { s1 } else { s2 };
            assert!(cell_int(&base) == Some(expected), "C04 PERCENTILE(p) is the element at floor(p*n) of the sorted non-NULL values (the largest for p = 1)");
            if $n == 3 {
                let reversed = fold3(K_PCT, &agg, &c, &b, &a, 3);
                assert!(same_cell(&base, &reversed), "C15 aggregate is the same for every order of the group's rows");
                let rotated = fold3(K_PCT, &agg, &b, &c, &a, 3);
                assert!(same_cell(&base, &rotated), "C15 aggregate is the same for every order of the group's rows");
            }
            kani::cover!(p == 1.0, "percentile: p = 1 reachable");
            kani::cover!(p == 0.5, "percentile: p = 0.5 reachable");
        }
    };
}
percentile_harness!(c04_fold_percentile_n1, 1);
percentile_harness!(c04_fold_percentile_n2, 2);
percentile_harness!(c04_fold_percentile_n3, 3);

/// PERCENTILE over a group whose argument is NULL on every row: NULL, not a missing cell.
#[kani::proof]
#[kani::unwind(2)]
#[kani::stub(alloc::fmt::format, crate::verif_kani::common::stub_format)]
#[kani::stub(<crate::model::Value as std::clone::Clone>::clone, crate::verif_kani::common::stub_value_clone_scalar)]
#[kani::stub(chrono::Local::now, crate::verif_kani::common::stub_local_now)]
#[kani::stub(<chrono::Local as chrono::TimeZone>::offset_from_local_datetime, crate::verif_kani::common::stub_offset_from_local_datetime)]
#[kani::stub(<chrono::Local as chrono::TimeZone>::offset_from_utc_datetime, crate::verif_kani::common::stub_offset_from_utc_datetime)]
fn c04_fold_percentile_all_null() {
    let p: f64 = kani::any();
    kani::assume(p >= 0.0 && p <= 1.0);
    let a = ManuallyDrop::new(Value::Null);
    let agg = ManuallyDrop::new(Aggregate::Percentile(ExpressionTree::Wildcard, Float(p)));
    let base = fold3(K_PCT, &agg, &a, &a, &a, 2);
    assert!(cell_is_null(&base), "C04 aggregate over no non-NULL value is NULL");
    kani::cover!(true, "percentile all null: end reachable");
}

#[cfg(test)]
#[path = "/verif/.cache/playback/aggregate_execution.rs"]
mod playback_gen;

// ------------------------------------------------------------------------------------------------
// MIN / MAX: the real fold kernel `fold_min_max` (src/execution/aggregate_execution.rs) under the
// driver protocol of update_aggregate's Min/Max arm: the group's cell is created lazily from the
// first value that arrives (a clone of it, or NULL when it is NULL), a non-NULL value is folded in
// through fold_min_max, a NULL value leaves an existing cell alone.
fn minmax3(is_min: bool, v0: &Value, v1: &Value, v2: &Value) -> Option<MD<Value>> {
    let mut cell: Option<MD<Value>> = None;
    macro_rules! step {
        ($v:expr) => {
            if $v.is_not_null() {
                if cell.is_none() { cell = Some(ManuallyDrop::new(stub_value_clone_scalar($v))); }
                if let Some(c) = cell.as_mut() { super::fold_min_max(&mut **c, $v, is_min); }
            } else if cell.is_none() {
                cell = Some(ManuallyDrop::new(Value::Null));
            }
        };
    }
    step!(v0); step!(v1); step!(v2);
    cell
}

fn same_opt_cell(x: &Option<MD<Value>>, y: &Option<MD<Value>>) -> bool {
    match (x, y) { (None, None) => true, (Some(a), Some(b)) => **a == **b, _ => false }
}

/// `le(a, b)`: a <= b in the documented order of the type, stated on the payloads (not through Value::cmp).
/// The cell must be a value v of the group with v <= every non-NULL value (MIN) / v >= (MAX), NULL iff the
/// group has no non-NULL value, and the same whatever the arrival order (C15).
macro_rules! minmax_harness {
    ($name:ident, $is_min:expr, $mk:expr, $le:expr, $n0:expr, $n1:expr, $n2:expr) => {
        #[kani::proof]
        #[kani::unwind(2)]
        #[kani::stub(alloc::fmt::format, crate::verif_kani::common::stub_format)]
        #[kani::stub(<crate::model::Value as std::clone::Clone>::clone, crate::verif_kani::common::stub_value_clone_scalar)]
        #[kani::stub(chrono::Local::now, crate::verif_kani::common::stub_local_now)]
        #[kani::stub(<chrono::Local as chrono::TimeZone>::offset_from_local_datetime, crate::verif_kani::common::stub_offset_from_local_datetime)]
        #[kani::stub(<chrono::Local as chrono::TimeZone>::offset_from_utc_datetime, crate::verif_kani::common::stub_offset_from_utc_datetime)]
        fn $name() {
            let (n0, n1, n2): (bool, bool, bool) = ($n0, $n1, $n2);
            let mk = $mk;
            let le = $le;
            let a: MD<Value> = if n0 { ManuallyDrop::new(Value::Null) } else { ManuallyDrop::new(mk()) };
            let b: MD<Value> = if n1 { ManuallyDrop::new(Value::Null) } else { ManuallyDrop::new(mk()) };
            let c: MD<Value> = if n2 { ManuallyDrop::new(Value::Null) } else { ManuallyDrop::new(mk()) };
            let is_min: bool = $is_min;
            let base = minmax3(is_min, &a, &b, &c);
            match &base {
                None => { assert!(false, "C04 every group has a cell for MIN / MAX"); }
                Some(r) => {
                    if n0 && n1 && n2 {
                        assert!(r.is_null(), "C04 aggregate over no non-NULL value is NULL");
                    } else {
                        assert!(!r.is_null(), "C04 MIN / MAX over a group with a non-NULL value is not NULL");
                        let bound = |v: &Value| v.is_null() || if is_min { le(&**r, v) } else { le(v, &**r) };
                        assert!(bound(&a) && bound(&b) && bound(&c), "C04 MIN / MAX is the least / greatest non-NULL value of the group");
                        let is_one = |v: &Value| !v.is_null() && le(&**r, v) && le(v, &**r);
                        assert!(is_one(&a) || is_one(&b) || is_one(&c), "C04 MIN / MAX is a value of the group");
                    }
                }
            }
            let reversed = minmax3(is_min, &c, &b, &a);
            assert!(same_opt_cell(&base, &reversed), "C15 aggregate is the same for every order of the group's rows");
            let rotated = minmax3(is_min, &b, &c, &a);
            assert!(same_opt_cell(&base, &rotated), "C15 aggregate is the same for every order of the group's rows");
            kani::cover!(true, "fold: end reachable");
        }
    };
}

fn le_int(a: &Value, b: &Value) -> bool { match (a, b) { (Value::Int(x), Value::Int(y)) => x <= y, _ => false } }
// REAL: numeric order with -0.0 = 0.0, NaN above every number (the total order of C16)
fn le_float(a: &Value, b: &Value) -> bool { match (a, b) { (Value::Float(x), Value::Float(y)) => y.0.is_nan() || x.0 <= y.0, _ => false } }
fn le_bool(a: &Value, b: &Value) -> bool { match (a, b) { (Value::Bool(x), Value::Bool(y)) => !*x || *y, _ => false } }
fn le_timestamp(a: &Value, b: &Value) -> bool {
    match (a, b) {
        // the instant order of chrono's DateTime (its laws are decided under C16); converting back to seconds is a chain of
        // 64-bit multiplications that the solver does not get through (no verdict in 600 s)
        (Value::Timestamp(x), Value::Timestamp(y)) => x <= y,
        _ => false
    }
}
fn le_interval(a: &Value, b: &Value) -> bool {
    match (a, b) { (Value::Interval(x), Value::Interval(y)) => (x.num_seconds(), x.subsec_nanos()) <= (y.num_seconds(), y.subsec_nanos()), _ => false }
}
// TEXT of 0..1 ASCII bytes: code point order, the empty string first
fn le_text1(a: &Value, b: &Value) -> bool {
    match (a, b) {
        (Value::String(x), Value::String(y)) => {
            let (x, y) = (x.as_bytes(), y.as_bytes());
            if x.len() == 0 { true } else if y.len() == 0 { false } else { x[0] <= y[0] }
        }
        _ => false
    }
}
fn mk_int() -> Value { Value::Int(kani::any()) }
fn mk_float() -> Value { Value::Float(Float(kani::any())) }
fn mk_bool() -> Value { Value::Bool(kani::any()) }
fn mk_timestamp() -> Value { Value::Timestamp(any_timestamp()) }
fn mk_interval() -> Value { Value::Interval(any_interval()) }
fn mk_text1() -> Value { Value::String(any_ascii_string(1)) }

macro_rules! minmax_patterns {
    ($min_vvv:ident, $min_nvv:ident, $min_vnv:ident, $min_nnn:ident, $max_vvv:ident, $max_nvv:ident, $max_vnv:ident, $max_nnn:ident, $mk:expr, $le:expr) => {
        minmax_harness!($min_vvv, true, $mk, $le, false, false, false);
        minmax_harness!($min_nvv, true, $mk, $le, true, false, false);
        minmax_harness!($min_vnv, true, $mk, $le, false, true, false);
        minmax_harness!($min_nnn, true, $mk, $le, true, true, true);
        minmax_harness!($max_vvv, false, $mk, $le, false, false, false);
        minmax_harness!($max_nvv, false, $mk, $le, true, false, false);
        minmax_harness!($max_vnv, false, $mk, $le, false, true, false);
        minmax_harness!($max_nnn, false, $mk, $le, true, true, true);
    };
}
minmax_patterns!(c04_minmax_min_int_vvv, c04_minmax_min_int_nvv, c04_minmax_min_int_vnv, c04_minmax_min_int_nnn, c04_minmax_max_int_vvv, c04_minmax_max_int_nvv, c04_minmax_max_int_vnv, c04_minmax_max_int_nnn, mk_int, le_int);
minmax_patterns!(c04_minmax_min_float_vvv, c04_minmax_min_float_nvv, c04_minmax_min_float_vnv, c04_minmax_min_float_nnn, c04_minmax_max_float_vvv, c04_minmax_max_float_nvv, c04_minmax_max_float_vnv, c04_minmax_max_float_nnn, mk_float, le_float);
minmax_patterns!(c04_minmax_min_bool_vvv, c04_minmax_min_bool_nvv, c04_minmax_min_bool_vnv, c04_minmax_min_bool_nnn, c04_minmax_max_bool_vvv, c04_minmax_max_bool_nvv, c04_minmax_max_bool_vnv, c04_minmax_max_bool_nnn, mk_bool, le_bool);
minmax_patterns!(c04_minmax_min_timestamp_vvv, c04_minmax_min_timestamp_nvv, c04_minmax_min_timestamp_vnv, c04_minmax_min_timestamp_nnn, c04_minmax_max_timestamp_vvv, c04_minmax_max_timestamp_nvv, c04_minmax_max_timestamp_vnv, c04_minmax_max_timestamp_nnn, mk_timestamp, le_timestamp);
minmax_patterns!(c04_minmax_min_interval_vvv, c04_minmax_min_interval_nvv, c04_minmax_min_interval_vnv, c04_minmax_min_interval_nnn, c04_minmax_max_interval_vvv, c04_minmax_max_interval_nvv, c04_minmax_max_interval_vnv, c04_minmax_max_interval_nnn, mk_interval, le_interval);
minmax_patterns!(c04_minmax_min_text1_vvv, c04_minmax_min_text1_nvv, c04_minmax_min_text1_vnv, c04_minmax_min_text1_nnn, c04_minmax_max_text1_vvv, c04_minmax_max_text1_nvv, c04_minmax_max_text1_vnv, c04_minmax_max_text1_nnn, mk_text1, le_text1);

// ------------------------------------------------------------------------------------------------
// The REAL driver: AggregateExecutionEngine::update_aggregate (shared SUM / AVG / ... / BOOL arm and the
// MIN / MAX arm) runs as written - evaluate(argument), lazily created aggregator, update(), the is_null()
// guard for NULL arguments, the write into the group's visible cell.  Only the group *table* is played by
// the harness: get_group_value / get_group_aggregator are stubbed to hand out the one slot of the one
// group (BTreeMap<GroupKey, HashMap<..>> does not get through symbolic execution, probe 14).  The
// update_value() step of execute_result is applied as in fold3.
use super::{AggregateExecutionEngine, GroupKey};
use crate::execution::{ColumnProvider, ColumnScope, ExecutionError, ExecutionResult};
use crate::execution::expression_execution::ExpressionExecutionEngine;
use crate::model::AggregateStatement;

struct OneValue { v: MD<Value>, keys: MD<Vec<String>> }
impl ColumnProvider for OneValue {
    fn get(&self, _scope: ColumnScope, _name: &str) -> Option<&Value> { Some(&*self.v) }
    fn add_key(&mut self, _key: &str) {}
    fn keys(&self) -> &Vec<String> { &*self.keys }
}

static mut SLOT_VALUE: Option<MD<Value>> = None;
static mut SLOT_AGG: Option<MD<GroupAggregator>> = None;

fn stub_get_group_value<F: Fn() -> ExecutionResult<Value>>(_engine: &mut AggregateExecutionEngine, group_key: GroupKey, _aggregate_index: usize, default_value_fn: F) -> ExecutionResult<&mut Value> {
    std::mem::forget(group_key);
    let slot = unsafe { &mut *std::ptr::addr_of_mut!(SLOT_VALUE) };
    if slot.is_none() { *slot = Some(ManuallyDrop::new(default_value_fn()?)); }
    match slot.as_mut() { Some(v) => Ok(&mut **v), None => Err(ExecutionError::InternalError) }
}

fn stub_get_group_aggregator<F: Fn() -> GroupAggregator>(_engine: &mut AggregateExecutionEngine, group_key: GroupKey, _aggregate_index: usize, default_value_fn: F) -> ExecutionResult<&mut GroupAggregator> {
    std::mem::forget(group_key);
    let slot = unsafe { &mut *std::ptr::addr_of_mut!(SLOT_AGG) };
    if slot.is_none() { *slot = Some(ManuallyDrop::new(default_value_fn())); }
    match slot.as_mut() { Some(v) => Ok(&mut **v), None => Err(ExecutionError::InternalError) }
}

/// The group's visible cell after the three rows went through the real update_aggregate in this order.
fn drive3(agg: &Aggregate, v0: &Value, v1: &Value, v2: &Value) -> Result<Option<MD<Value>>, ()> {
    unsafe { *std::ptr::addr_of_mut!(SLOT_VALUE) = None; *std::ptr::addr_of_mut!(SLOT_AGG) = None; }
    let mut engine = ManuallyDrop::new(AggregateExecutionEngine::new());
    let statement = ManuallyDrop::new(AggregateStatement::default());
    let key = ManuallyDrop::new(GroupKey(Vec::new()));
    macro_rules! step {
        ($v:expr) => {
            let row = ManuallyDrop::new(OneValue { v: ManuallyDrop::new(stub_value_clone_scalar($v)), keys: ManuallyDrop::new(Vec::new()) });
            let expressions = ManuallyDrop::new(ExpressionExecutionEngine::new(&*row));
            let r = ManuallyDrop::new(engine.update_aggregate(&statement, &*row, &*expressions, &key, 0, agg));
            if r.is_err() { return Err(()); }
        };
    }
    step!(v0); step!(v1); step!(v2);
    let aggregator = unsafe { &mut *std::ptr::addr_of_mut!(SLOT_AGG) };
    let cell = unsafe { &mut *std::ptr::addr_of_mut!(SLOT_VALUE) };
    if let Some(aggregator) = aggregator.as_mut() {
        let r = ManuallyDrop::new(aggregator.update_value());
        match &*r {
            Ok(Some(value)) => { *cell = Some(ManuallyDrop::new(stub_value_clone_scalar(value))); }
            Ok(None) => {}
            Err(_) => { return Err(()); }
        }
    }
    Ok(match cell.as_ref() { Some(v) => Some(ManuallyDrop::new(stub_value_clone_scalar(&**v))), None => None })
}

fn column_arg() -> ExpressionTree { ExpressionTree::ScopedColumnAccess(ColumnScope::Table, String::new()) }

/// Two non-NULL INT rows a, b and one NULL row; $order places the NULL row (0 = last, 1 = first, 2 = in the middle).
/// One harness per placement (the three placements in one harness - nine driver calls - passed 13 GB without a
/// verdict): the cell is the aggregate of {a, b} for each placement (C04), hence the same for these orders (C15).
macro_rules! driver_int_harness {
    ($name:ident, $agg:expr, $order:expr, $expect:expr) => {
        #[kani::proof]
        #[kani::unwind(2)]
        #[kani::stub(alloc::fmt::format, crate::verif_kani::common::stub_format)]
        #[kani::stub(<crate::model::Value as std::clone::Clone>::clone, crate::verif_kani::common::stub_value_clone_scalar)]
        #[kani::stub(<crate::model::Value as std::fmt::Display>::fmt, crate::verif_kani::common::stub_value_display)]
        #[kani::stub(regex::Regex::new, crate::verif_kani::common::stub_regex_new)]
        #[kani::stub(chrono::NaiveDateTime::parse_from_str, crate::verif_kani::common::stub_naive_parse_from_str)]
        #[kani::stub(chrono::Local::now, crate::verif_kani::common::stub_local_now)]
        #[kani::stub(<chrono::Local as chrono::TimeZone>::offset_from_local_datetime, crate::verif_kani::common::stub_offset_from_local_datetime)]
        #[kani::stub(<chrono::Local as chrono::TimeZone>::offset_from_utc_datetime, crate::verif_kani::common::stub_offset_from_utc_datetime)]
        #[kani::stub(AggregateExecutionEngine::get_group_value, stub_get_group_value)]
        #[kani::stub(AggregateExecutionEngine::get_group_aggregator, stub_get_group_aggregator)]
        fn $name() {
            let x0: i64 = kani::any(); let x1: i64 = kani::any();
            kani::assume(x0 >= -SMALL && x0 <= SMALL && x1 >= -SMALL && x1 <= SMALL);
            let (a, b, n) = (int_or_null(false, x0), int_or_null(false, x1), int_or_null(true, 0));
            let agg = ManuallyDrop::new($agg);
            let expect = $expect;
            let cell = match $order { 0 => drive3(&agg, &a, &b, &n), 1 => drive3(&agg, &n, &a, &b), _ => drive3(&agg, &a, &n, &b) };
            assert!(expect(&cell, x0, x1), "C04 aggregate is computed from the group's non-NULL values, wherever the NULL row arrives (C15)");
            kani::cover!(true, "driver: end reachable");
        }
    };
}
macro_rules! driver_int_orders {
    ($nl:ident, $nf:ident, $nm:ident, $agg:expr, $expect:expr) => {
        driver_int_harness!($nl, $agg, 0, $expect);
        driver_int_harness!($nf, $agg, 1, $expect);
        driver_int_harness!($nm, $agg, 2, $expect);
    };
}
driver_int_orders!(c04_driver_sum_int_null_last, c04_driver_sum_int_null_first, c04_driver_sum_int_null_middle, Aggregate::Sum(column_arg()), |c: &Result<Option<MD<Value>>, ()>, x0: i64, x1: i64| cell_int(c) == Some(x0 + x1));
driver_int_orders!(c04_driver_avg_int_null_last, c04_driver_avg_int_null_first, c04_driver_avg_int_null_middle, Aggregate::Average(column_arg()), |c: &Result<Option<MD<Value>>, ()>, x0: i64, x1: i64| match cell_int(c) { Some(q) => { let d = (x0 + x1) - q * 2; d > -2 && d < 2 } None => false });
driver_int_orders!(c04_driver_min_int_null_last, c04_driver_min_int_null_first, c04_driver_min_int_null_middle, Aggregate::Min(column_arg()), |c: &Result<Option<MD<Value>>, ()>, x0: i64, x1: i64| cell_int(c) == Some(if x0 < x1 { x0 } else { x1 }));
driver_int_orders!(c04_driver_max_int_null_last, c04_driver_max_int_null_first, c04_driver_max_int_null_middle, Aggregate::Max(column_arg()), |c: &Result<Option<MD<Value>>, ()>, x0: i64, x1: i64| cell_int(c) == Some(if x0 > x1 { x0 } else { x1 }));

// ------------------------------------------------------------------------------------------------
// C03 (hosted here so that kani/execution.rs stays byte-identical: c03_subscript_len1 in that module is sensitive
// to what it is compiled with, DESIGN.md 6.2): WHERE comparison of an INT with a REAL against the *exact* order
// of any i64 and any non-NaN f64.  First assertion: the result is the numeric one or the recorded by-variant one
// (known finding C03-int-vs-real-compare) - anything else is a new violation; second assertion: the property.
struct TwoValues { a: MD<Value>, b: MD<Value>, keys: MD<Vec<String>> }
impl ColumnProvider for TwoValues {
    fn get(&self, scope: ColumnScope, _name: &str) -> Option<&Value> {
        match scope { ColumnScope::Table => Some(&*self.a), _ => Some(&*self.b) }
    }
    fn add_key(&mut self, _key: &str) {}
    fn keys(&self) -> &Vec<String> { &*self.keys }
}

/// Exact order of an i64 against an f64 (None for NaN): no rounding of the integer.
fn exact_cmp_i64_f64(i: i64, f: f64) -> Option<std::cmp::Ordering> {
    use std::cmp::Ordering::*;
    if f.is_nan() { return None; }
    if f >= 9223372036854775808.0 { return Some(Less); }
    if f < -9223372036854775808.0 { return Some(Greater); }
    let t = f as i64;       // truncation towards zero, exact in this range
    if i < t { Some(Less) } else if i > t { Some(Greater) } else {
        let tf = t as f64;  // exact: t is the integral part of an f64
        if f > tf { Some(Less) } else if f < tf { Some(Greater) } else { Some(Equal) }
    }
}

fn holds(op: u8, ord: std::cmp::Ordering) -> bool {
    use std::cmp::Ordering::*;
    match op { 0 => ord == Equal, 1 => ord == Greater, _ => ord == Less }
}

macro_rules! exact_mixed_compare_harness {
    ($name:ident, $int_left:expr, $op:expr) => {
        #[kani::proof]
        #[kani::unwind(2)]
        #[kani::stub(alloc::fmt::format, crate::verif_kani::common::stub_format)]
        #[kani::stub(<crate::model::Value as std::clone::Clone>::clone, crate::verif_kani::common::stub_value_clone_scalar)]
        #[kani::stub(<crate::model::Value as std::fmt::Display>::fmt, crate::verif_kani::common::stub_value_display)]
        #[kani::stub(regex::Regex::new, crate::verif_kani::common::stub_regex_new)]
        #[kani::stub(chrono::NaiveDateTime::parse_from_str, crate::verif_kani::common::stub_naive_parse_from_str)]
        #[kani::stub(chrono::Local::now, crate::verif_kani::common::stub_local_now)]
        #[kani::stub(<chrono::Local as chrono::TimeZone>::offset_from_local_datetime, crate::verif_kani::common::stub_offset_from_local_datetime)]
        #[kani::stub(<chrono::Local as chrono::TimeZone>::offset_from_utc_datetime, crate::verif_kani::common::stub_offset_from_utc_datetime)]
        fn $name() {
            let i: i64 = kani::any();
            let f: f64 = kani::any();
            let int_left: bool = $int_left;
            let (va, vb) = if int_left { (Value::Int(i), Value::Float(Float(f))) } else { (Value::Float(Float(f)), Value::Int(i)) };
            let row = ManuallyDrop::new(TwoValues { a: ManuallyDrop::new(va), b: ManuallyDrop::new(vb), keys: ManuallyDrop::new(Vec::new()) });
            let mut left = ManuallyDrop::new(ExpressionTree::ScopedColumnAccess(ColumnScope::Table, String::new()));
            let mut right = ManuallyDrop::new(ExpressionTree::ScopedColumnAccess(ColumnScope::AggregationValue, String::new()));
            let operator = match $op { 0 => crate::model::CompareOperator::Equal, 1 => crate::model::CompareOperator::GreaterThan, _ => crate::model::CompareOperator::LessThan };
            let e = ManuallyDrop::new(ExpressionTree::Compare {
                operator,
                left: unsafe { Box::from_raw(&mut *left as *mut ExpressionTree) },
                right: unsafe { Box::from_raw(&mut *right as *mut ExpressionTree) },
            });
            let r = ManuallyDrop::new(ExpressionExecutionEngine::new(&*row).evaluate(&e));
            let got = if let Ok(Value::Bool(x)) = &*r { Some(*x) } else { None };
            if let Some(ord) = exact_cmp_i64_f64(i, f) {
                let ord = if int_left { ord } else { ord.reverse() };
                let by_variant = if int_left { std::cmp::Ordering::Less } else { std::cmp::Ordering::Greater };
                assert!(got == Some(holds($op, ord)) || got == Some(holds($op, by_variant)), "C03 INT vs REAL comparison is the exact numeric one or the recorded by-variant one");
                assert!(got == Some(holds($op, ord)), "C03 INT vs REAL compares numerically (exact, full range)");
            }
            kani::cover!(true, "compare: end reachable");
        }
    };
}
exact_mixed_compare_harness!(c03_cmpx_int_float_eq, true, 0);
exact_mixed_compare_harness!(c03_cmpx_float_int_gt, false, 1);
exact_mixed_compare_harness!(c03_cmpx_int_float_lt, true, 2);

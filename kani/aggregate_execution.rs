// cfg(kani) child module of src/.../aggregate_execution.rs (see DESIGN.md §1.1)

// cfg(kani) child module of src/.../execution.rs (see DESIGN.md §1.1)

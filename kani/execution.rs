// cfg(kani) child module of src/execution/mod.rs: harnesses for the expression evaluator
// (C03 semantics, C09 totality) and the select engine (C03, C08).  See DESIGN.md §2.
#![allow(dead_code, unused_imports, unused_macros)]

use std::mem::ManuallyDrop;

use crate::model::{ArithmeticOperator, BooleanOperator, CompareOperator, ExpressionTree, Float, Function,
                   NullableCompareOperator, UnaryArithmeticOperator, Value, ValueType};
use crate::verif_kani::common::*;

use super::expression_execution::{EvaluationError, EvaluationResult, ExpressionExecutionEngine};
use super::{ColumnProvider, ColumnScope};

/// Operand provider (rule R3): dispatches on the concrete scope, never on the name.
pub struct Ops {
    pub a: MD<Value>,
    pub b: MD<Value>,
    pub c: MD<Value>,
    pub keys: MD<Vec<String>>,
}

impl Ops {
    pub fn new(a: MD<Value>, b: MD<Value>, c: MD<Value>) -> MD<Ops> {
        ManuallyDrop::new(Ops { a, b, c, keys: ManuallyDrop::new(Vec::new()) })
    }
}

impl ColumnProvider for Ops {
    fn get(&self, scope: ColumnScope, _name: &str) -> Option<&Value> {
        match scope {
            ColumnScope::Table => Some(&*self.a),
            ColumnScope::AggregationValue => Some(&*self.b),
            ColumnScope::GroupKey => Some(&*self.c),
            ColumnScope::GroupValue => None,
        }
    }
    fn add_key(&mut self, _key: &str) {}
    fn keys(&self) -> &Vec<String> { &*self.keys }
}

pub fn op_a() -> Box<ExpressionTree> { Box::new(ExpressionTree::ScopedColumnAccess(ColumnScope::Table, String::new())) }
pub fn op_b() -> Box<ExpressionTree> { Box::new(ExpressionTree::ScopedColumnAccess(ColumnScope::AggregationValue, String::new())) }
pub fn op_c() -> Box<ExpressionTree> { Box::new(ExpressionTree::ScopedColumnAccess(ColumnScope::GroupKey, String::new())) }

/// A leaf operand whose Box points at a *stack* object (never dropped - everything is ManuallyDrop):
/// CBMC then sees the child's discriminant as a constant and follows only that arm of `evaluate`
/// instead of exploring every arm to the recursion bound.
/// A Vec whose buffer is a *stack* array (never dropped or grown - the tree holding it is ManuallyDrop): CBMC then
/// sees the discriminants of the list's nodes as constants (a heap-held list makes `evaluate` explore every arm).
macro_rules! stack_vec {
    ($store:ident, $v:ident, $($e:expr),+) => {
        let mut $store = ManuallyDrop::new([$($e),+]);
        let $v = unsafe { let n = $store.len(); Vec::from_raw_parts($store.as_mut_ptr(), n, n) };
    };
}

macro_rules! leaf {
    ($store:ident, $boxed:ident, $scope:expr) => {
        let mut $store = ManuallyDrop::new(ExpressionTree::ScopedColumnAccess($scope, String::new()));
        let $boxed: Box<ExpressionTree> = unsafe { Box::from_raw(&mut *$store as *mut ExpressionTree) };
    };
}

pub fn eval(ops: &Ops, e: &ExpressionTree) -> MD<EvaluationResult> {
    ManuallyDrop::new(ExpressionExecutionEngine::new(ops).evaluate(e))
}

/// Scalar value without loops (strings: exactly `slen` ASCII bytes, slen concrete <= 2).
pub fn scalar(tag: u8, slen: usize) -> MD<Value> {
    ManuallyDrop::new(match tag {
        V_NULL => Value::Null,
        V_INT => Value::Int(kani::any()),
        V_FLOAT => Value::Float(Float(kani::any())),
        V_BOOL => Value::Bool(kani::any()),
        V_STRING => {
            let mut s = String::new();
            if slen > 0 { let b: u8 = kani::any(); kani::assume(b < 0x80); s.push(b as char); }
            if slen > 1 { let b: u8 = kani::any(); kani::assume(b < 0x80); s.push(b as char); }
            Value::String(s)
        }
        V_TIMESTAMP => Value::Timestamp(any_timestamp()),
        _ => Value::Interval(any_interval()),
    })
}

fn is_err(r: &EvaluationResult) -> bool { r.is_err() }
fn is_null(r: &EvaluationResult) -> bool { matches!(r, Ok(Value::Null)) }
fn as_int(r: &EvaluationResult) -> Option<i64> { if let Ok(Value::Int(x)) = r { Some(*x) } else { None } }
fn as_bool(r: &EvaluationResult) -> Option<bool> { if let Ok(Value::Bool(x)) = r { Some(*x) } else { None } }
fn as_float_bits(r: &EvaluationResult) -> Option<u64> { if let Ok(Value::Float(x)) = r { Some(x.0.to_bits()) } else { None } }
fn same_float(bits: Option<u64>, expected: f64) -> bool {
    match bits {
        Some(b) => b == expected.to_bits() || (f64::from_bits(b).is_nan() && expected.is_nan()),
        None => false,
    }
}

macro_rules! env_stubbed_proof {
    ($(#[$m:meta])* fn $name:ident() $body:block) => {
        #[kani::proof]
        #[kani::stub(regex::Regex::new, crate::verif_kani::common::stub_regex_new)]
        #[kani::stub(chrono::Local::now, crate::verif_kani::common::stub_local_now)]
        #[kani::stub(<chrono::Local as chrono::TimeZone>::offset_from_local_datetime, crate::verif_kani::common::stub_offset_from_local_datetime)]
        #[kani::stub(<chrono::Local as chrono::TimeZone>::offset_from_utc_datetime, crate::verif_kani::common::stub_offset_from_utc_datetime)]
        #[kani::stub(<crate::model::Value as std::clone::Clone>::clone, crate::verif_kani::common::stub_value_clone_scalar)]
        #[kani::stub(alloc::fmt::format, crate::verif_kani::common::stub_format)]
        #[kani::stub(<crate::model::Value as std::fmt::Display>::fmt, crate::verif_kani::common::stub_value_display)]
        #[kani::stub(chrono::NaiveDateTime::parse_from_str, crate::verif_kani::common::stub_naive_parse_from_str)]
        $(#[$m])*
        fn $name() $body
    };
}

macro_rules! env_stubbed_array_proof {
    ($(#[$m:meta])* fn $name:ident() $body:block) => {
        #[kani::proof]
        #[kani::stub(regex::Regex::new, crate::verif_kani::common::stub_regex_new)]
        #[kani::stub(chrono::Local::now, crate::verif_kani::common::stub_local_now)]
        #[kani::stub(<chrono::Local as chrono::TimeZone>::offset_from_local_datetime, crate::verif_kani::common::stub_offset_from_local_datetime)]
        #[kani::stub(<chrono::Local as chrono::TimeZone>::offset_from_utc_datetime, crate::verif_kani::common::stub_offset_from_utc_datetime)]
        #[kani::stub(<crate::model::Value as std::clone::Clone>::clone, crate::verif_kani::common::stub_value_clone_array1)]
        #[kani::stub(alloc::fmt::format, crate::verif_kani::common::stub_format)]
        #[kani::stub(<crate::model::Value as std::fmt::Display>::fmt, crate::verif_kani::common::stub_value_display)]
        #[kani::stub(chrono::NaiveDateTime::parse_from_str, crate::verif_kani::common::stub_naive_parse_from_str)]
        $(#[$m])*
        fn $name() $body
    };
}

/// A symbolic scalar of a concrete variant, with its primitives kept so that oracles can refer to them.
#[derive(Clone, Copy)]
pub struct Sym {
    pub tag: u8,
    pub i: i64,
    pub f: f64,
    pub b: bool,
    pub s0: u8,
    pub s1: u8,
    pub slen: usize,
    pub secs: i64,
    pub nanos: u32,
    pub off: i32,
}

impl Sym {
    /// `slen` is the (concrete) string length used when tag == V_STRING.
    pub fn any(tag: u8, slen: usize) -> Sym {
        let mut x = Sym { tag, i: 0, f: 0.0, b: false, s0: 0, s1: 0, slen, secs: 0, nanos: 0, off: 0 };
        match tag {
            V_INT => { x.i = kani::any(); }
            V_FLOAT => { x.f = kani::any(); }
            V_BOOL => { x.b = kani::any(); }
            V_STRING => {
                if slen > 0 { x.s0 = kani::any(); kani::assume(x.s0 < 0x80); }
                if slen > 1 { x.s1 = kani::any(); kani::assume(x.s1 < 0x80); }
            }
            V_TIMESTAMP => {
                x.secs = kani::any(); kani::assume(x.secs > -(1i64 << 40) && x.secs < (1i64 << 40));
                x.nanos = kani::any(); kani::assume(x.nanos < 1_000_000_000);
                x.off = kani::any(); kani::assume(x.off > -86_400 && x.off < 86_400);
            }
            V_INTERVAL => {
                x.secs = kani::any(); kani::assume(x.secs > -(1i64 << 40) && x.secs < (1i64 << 40));
                x.nanos = kani::any(); kani::assume(x.nanos < 1_000_000_000);
            }
            _ => {}
        }
        x
    }

    pub fn value(&self) -> MD<Value> {
        ManuallyDrop::new(match self.tag {
            V_NULL => Value::Null,
            V_INT => Value::Int(self.i),
            V_FLOAT => Value::Float(Float(self.f)),
            V_BOOL => Value::Bool(self.b),
            V_STRING => {
                let mut s = String::new();
                if self.slen > 0 { s.push(self.s0 as char); }
                if self.slen > 1 { s.push(self.s1 as char); }
                Value::String(s)
            }
            V_TIMESTAMP => {
                let utc = chrono::DateTime::from_timestamp(self.secs, self.nanos).unwrap().naive_utc();
                let off = chrono::FixedOffset::east_opt(self.off).unwrap();
                Value::Timestamp(chrono::DateTime::<chrono::Local>::from_naive_utc_and_offset(utc, off))
            }
            _ => Value::Interval(chrono::TimeDelta::new(self.secs, self.nanos).unwrap()),
        })
    }

    /// Reference order of two symbolic scalars of the same variant ("compare by value": numbers
    /// numerically with NaN greatest and equal to itself, text by code point, timestamps by instant).
    pub fn ref_cmp(&self, o: &Sym) -> std::cmp::Ordering {
        use std::cmp::Ordering::*;
        match self.tag {
            V_INT => self.i.cmp(&o.i),
            V_FLOAT => {
                if self.f < o.f { Less } else if self.f > o.f { Greater }
                else if self.f.is_nan() && !o.f.is_nan() { Greater }
                else if !self.f.is_nan() && o.f.is_nan() { Less }
                else { Equal }
            }
            V_BOOL => self.b.cmp(&o.b),
            V_STRING => {
                // lexicographic on (s0, s1) restricted to the lengths
                if self.slen == 0 || o.slen == 0 { return self.slen.cmp(&o.slen); }
                if self.s0 != o.s0 { return self.s0.cmp(&o.s0); }
                if self.slen == 1 || o.slen == 1 { return self.slen.cmp(&o.slen); }
                self.s1.cmp(&o.s1)
            }
            V_TIMESTAMP | V_INTERVAL => {
                if self.secs != o.secs { self.secs.cmp(&o.secs) } else { self.nanos.cmp(&o.nanos) }
            }
            _ => Equal,
        }
    }
}

fn any_arith_op() -> ArithmeticOperator {
    let k: u8 = kani::any();
    kani::assume(k < 4);
    match k { 0 => ArithmeticOperator::Add, 1 => ArithmeticOperator::Subtract, 2 => ArithmeticOperator::Multiply, _ => ArithmeticOperator::Divide }
}

fn any_compare_op() -> (u8, CompareOperator) {
    let k: u8 = kani::any();
    kani::assume(k < 6);
    (k, match k {
        0 => CompareOperator::Equal, 1 => CompareOperator::NotEqual, 2 => CompareOperator::GreaterThan,
        3 => CompareOperator::GreaterThanOrEqual, 4 => CompareOperator::LessThan, _ => CompareOperator::LessThanOrEqual })
}

fn ref_compare(k: u8, ord: std::cmp::Ordering) -> bool {
    use std::cmp::Ordering::*;
    match k { 0 => ord == Equal, 1 => ord != Equal, 2 => ord == Greater, 3 => ord != Less, 4 => ord == Less, _ => ord != Greater }
}

fn null_md() -> MD<Value> { ManuallyDrop::new(Value::Null) }

// ------------------------------------------------------------------------------------------------
// Arithmetic.  Oracle (C03): NULL operand => NULL; INT op INT => the exact i64 or an error
// (overflow, zero divisor), never a wrapped value and never a panic (C09); REAL op REAL => the IEEE
// result; any other pair of scalars => error.

macro_rules! arith_int_harness {
    ($name:ident, $op:expr, $bound_y:expr) => {
        env_stubbed_proof! {
            #[kani::unwind(2)]
            fn $name() {
                let x: i64 = kani::any();
                let y: i64 = kani::any();
                if $bound_y { kani::assume(y >= -16 && y <= 16); }
                let ops = Ops::new(ManuallyDrop::new(Value::Int(x)), ManuallyDrop::new(Value::Int(y)), null_md());
                let e = ManuallyDrop::new(ExpressionTree::Arithmetic { operator: $op, left: op_a(), right: op_b() });
                let r = eval(&ops, &e);
                let expected = match $op {
                    ArithmeticOperator::Add => x.checked_add(y),
                    ArithmeticOperator::Subtract => x.checked_sub(y),
                    ArithmeticOperator::Multiply => x.checked_mul(y),
                    ArithmeticOperator::Divide => x.checked_div(y),
                };
                match expected {
                    Some(v) => assert!(as_int(&r) == Some(v), "C03 INT arithmetic yields the exact result"),
                    None => assert!(is_err(&r), "C03 INT overflow / zero divisor is reported as an error"),
                }
                kani::cover!(expected.is_none(), "arith: overflow / zero-divisor case reachable");
                kani::cover!(expected.is_some(), "arith: exact case reachable");
            }
        }
    };
}
arith_int_harness!(c03_arith_add_int_int, ArithmeticOperator::Add, false);
arith_int_harness!(c03_arith_sub_int_int, ArithmeticOperator::Subtract, false);
arith_int_harness!(c03_arith_mul_int_int, ArithmeticOperator::Multiply, true);
arith_int_harness!(c03_arith_div_int_int, ArithmeticOperator::Divide, true);

macro_rules! arith_float_harness {
    ($name:ident, $op:expr, $f:expr) => {
        env_stubbed_proof! {
            #[kani::unwind(2)]
            fn $name() {
                let x: f64 = kani::any();
                let y: f64 = kani::any();
                let ops = Ops::new(ManuallyDrop::new(Value::Float(Float(x))), ManuallyDrop::new(Value::Float(Float(y))), null_md());
                let e = ManuallyDrop::new(ExpressionTree::Arithmetic { operator: $op, left: op_a(), right: op_b() });
                let r = eval(&ops, &e);
                let f: fn(f64, f64) -> f64 = $f;
                assert!(same_float(as_float_bits(&r), f(x, y)), "C03 REAL arithmetic yields the IEEE result");
                kani::cover!(true, "arith float: end reachable");
            }
        }
    };
}
arith_float_harness!(c03_arith_add_float_float, ArithmeticOperator::Add, |x, y| x + y);
arith_float_harness!(c03_arith_sub_float_float, ArithmeticOperator::Subtract, |x, y| x - y);
arith_float_harness!(c03_arith_mul_float_float, ArithmeticOperator::Multiply, |x, y| x * y);
arith_float_harness!(c03_arith_div_float_float, ArithmeticOperator::Divide, |x, y| x / y);

/// Operator symbolic; NULL in either position => NULL, mismatched / non-numeric scalar pairs => error.
macro_rules! arith_mixed_harness {
    ($name:ident, $ta:expr, $tb:expr) => {
        env_stubbed_proof! {
            #[kani::unwind(2)]
            fn $name() {
                let a = Sym::any($ta, 1);
                let b = Sym::any($tb, 1);
                let ops = Ops::new(a.value(), b.value(), null_md());
                let e = ManuallyDrop::new(ExpressionTree::Arithmetic { operator: any_arith_op(), left: op_a(), right: op_b() });
                let r = eval(&ops, &e);
                if $ta == V_NULL || $tb == V_NULL {
                    assert!(is_null(&r), "C03 arithmetic with NULL gives NULL");
                } else {
                    assert!(is_err(&r), "C03 arithmetic on mismatched / non-numeric types is an error");
                }
                kani::cover!(true, "arith mixed: end reachable");
            }
        }
    };
}
arith_mixed_harness!(c03_arith_null_null, V_NULL, V_NULL);
arith_mixed_harness!(c03_arith_null_int, V_NULL, V_INT);
arith_mixed_harness!(c03_arith_int_null, V_INT, V_NULL);
arith_mixed_harness!(c03_arith_null_float, V_NULL, V_FLOAT);
arith_mixed_harness!(c03_arith_float_null, V_FLOAT, V_NULL);
arith_mixed_harness!(c03_arith_null_string, V_NULL, V_STRING);
arith_mixed_harness!(c03_arith_bool_null, V_BOOL, V_NULL);
arith_mixed_harness!(c03_arith_null_timestamp, V_NULL, V_TIMESTAMP);
arith_mixed_harness!(c03_arith_interval_null, V_INTERVAL, V_NULL);
arith_mixed_harness!(c03_arith_int_float, V_INT, V_FLOAT);
arith_mixed_harness!(c03_arith_float_int, V_FLOAT, V_INT);
arith_mixed_harness!(c03_arith_int_bool, V_INT, V_BOOL);
arith_mixed_harness!(c03_arith_bool_bool, V_BOOL, V_BOOL);
arith_mixed_harness!(c03_arith_string_string, V_STRING, V_STRING);
arith_mixed_harness!(c03_arith_string_int, V_STRING, V_INT);
arith_mixed_harness!(c03_arith_int_string, V_INT, V_STRING);
arith_mixed_harness!(c03_arith_float_bool, V_FLOAT, V_BOOL);
arith_mixed_harness!(c03_arith_int_interval, V_INT, V_INTERVAL);
arith_mixed_harness!(c03_arith_timestamp_int, V_TIMESTAMP, V_INT);

// ------------------------------------------------------------------------------------------------
// Comparisons: false when an operand is NULL, otherwise by value.  One harness per operand-variant pair
// and operator group ($ks = the operator indexes covered, chosen symbolically among them).
fn compare_op(k: u8) -> CompareOperator {
    match k {
        0 => CompareOperator::Equal, 1 => CompareOperator::NotEqual, 2 => CompareOperator::GreaterThan,
        3 => CompareOperator::GreaterThanOrEqual, 4 => CompareOperator::LessThan, _ => CompareOperator::LessThanOrEqual }
}

macro_rules! compare_harness {
    ($name:ident, $ta:expr, $la:expr, $tb:expr, $lb:expr, $k0:expr, $k1:expr) => {
        env_stubbed_proof! {
            #[kani::unwind(2)]
            fn $name() {
                let a = Sym::any($ta, $la);
                let b = Sym::any($tb, $lb);
                let ops = Ops::new(a.value(), b.value(), null_md());
                let second: bool = kani::any();
                let k: u8 = if second { $k1 } else { $k0 };
                let e = ManuallyDrop::new(ExpressionTree::Compare { operator: compare_op(k), left: op_a(), right: op_b() });
                let r = eval(&ops, &e);
                if $ta == V_NULL || $tb == V_NULL {
                    assert!(as_bool(&r) == Some(false), "C03 comparison with a NULL operand is false");
                } else if $ta == $tb {
                    assert!(as_bool(&r) == Some(ref_compare(k, a.ref_cmp(&b))), "C03 comparison compares by value");
                } else if ($ta == V_INT && $tb == V_FLOAT) {
                    if let Some(ord) = (a.i as f64).partial_cmp(&b.f) {
                        if a.i > -(1i64 << 52) && a.i < (1i64 << 52) {
                            assert!(as_bool(&r) == Some(ref_compare(k, ord)), "C03 INT vs REAL compares numerically");
                        }
                    }
                } else if ($ta == V_FLOAT && $tb == V_INT) {
                    if let Some(ord) = a.f.partial_cmp(&(b.i as f64)) {
                        if b.i > -(1i64 << 52) && b.i < (1i64 << 52) {
                            assert!(as_bool(&r) == Some(ref_compare(k, ord)), "C03 REAL vs INT compares numerically");
                        }
                    }
                } else {
                    assert!(is_err(&r) || as_bool(&r).is_some(), "C03 mixed comparison yields a boolean or an error");
                }
                kani::cover!(second, "compare: second operator reachable");
            }
        }
    };
}
compare_harness!(c03_cmp_int_int_eq_ne, V_INT, 0, V_INT, 0, 0, 1);
compare_harness!(c03_cmp_int_int_gt_ge, V_INT, 0, V_INT, 0, 2, 3);
compare_harness!(c03_cmp_int_int_lt_le, V_INT, 0, V_INT, 0, 4, 5);
compare_harness!(c03_cmp_float_float_eq_ne, V_FLOAT, 0, V_FLOAT, 0, 0, 1);
compare_harness!(c03_cmp_float_float_gt_ge, V_FLOAT, 0, V_FLOAT, 0, 2, 3);
compare_harness!(c03_cmp_float_float_lt_le, V_FLOAT, 0, V_FLOAT, 0, 4, 5);
compare_harness!(c03_cmp_bool_bool_eq_lt, V_BOOL, 0, V_BOOL, 0, 0, 4);
compare_harness!(c03_cmp_string1_string1_eq_lt, V_STRING, 1, V_STRING, 1, 0, 4);
compare_harness!(c03_cmp_string1_string1_ne_ge, V_STRING, 1, V_STRING, 1, 1, 3);
compare_harness!(c03_cmp_string0_string1_gt_le, V_STRING, 0, V_STRING, 1, 2, 5);
compare_harness!(c03_cmp_timestamp_timestamp_eq_lt, V_TIMESTAMP, 0, V_TIMESTAMP, 0, 0, 4);
compare_harness!(c03_cmp_interval_interval_ne_gt, V_INTERVAL, 0, V_INTERVAL, 0, 1, 2);
compare_harness!(c03_cmp_null_null_eq_ne, V_NULL, 0, V_NULL, 0, 0, 1);
compare_harness!(c03_cmp_null_int_eq_ne, V_NULL, 0, V_INT, 0, 0, 1);
compare_harness!(c03_cmp_null_int_lt_ge, V_NULL, 0, V_INT, 0, 4, 3);
compare_harness!(c03_cmp_int_null_eq_ne, V_INT, 0, V_NULL, 0, 0, 1);
compare_harness!(c03_cmp_int_null_gt_le, V_INT, 0, V_NULL, 0, 2, 5);
compare_harness!(c03_cmp_float_null_ne_ge, V_FLOAT, 0, V_NULL, 0, 1, 3);
compare_harness!(c03_cmp_null_string_ne_lt, V_NULL, 0, V_STRING, 1, 1, 4);
compare_harness!(c03_cmp_bool_null_ne_gt, V_BOOL, 0, V_NULL, 0, 1, 2);
compare_harness!(c03_cmp_timestamp_null_ne_ge, V_TIMESTAMP, 0, V_NULL, 0, 1, 3);
compare_harness!(c03_cmp_int_float_gt_lt, V_INT, 0, V_FLOAT, 0, 2, 4);
compare_harness!(c03_cmp_float_int_gt_eq, V_FLOAT, 0, V_INT, 0, 2, 0);
compare_harness!(c03_cmp_int_bool_eq_lt, V_INT, 0, V_BOOL, 0, 0, 4);

// ------------------------------------------------------------------------------------------------
// IS / IS NOT (operator symbolic): NULL-safe equality.
macro_rules! is_harness {
    ($name:ident, $ta:expr, $tb:expr) => {
        env_stubbed_proof! {
            #[kani::unwind(2)]
            fn $name() {
                let a = Sym::any($ta, 1);
                let b = Sym::any($tb, 1);
                let ops = Ops::new(a.value(), b.value(), null_md());
                let not: bool = kani::any();
                let op = if not { NullableCompareOperator::NotEqual } else { NullableCompareOperator::Equal };
                let e = ManuallyDrop::new(ExpressionTree::NullableCompare { operator: op, left: op_a(), right: op_b() });
                let r = eval(&ops, &e);
                let same = if $ta != $tb { false } else if $ta == V_NULL { true } else { a.ref_cmp(&b) == std::cmp::Ordering::Equal };
                assert!(as_bool(&r) == Some(same != not), "C03 IS / IS NOT test (NULL-safe) equality");
                kani::cover!(true, "is: end reachable");
            }
        }
    };
}
is_harness!(c03_is_null_null, V_NULL, V_NULL);
is_harness!(c03_is_int_null, V_INT, V_NULL);
is_harness!(c03_is_null_int, V_NULL, V_INT);
is_harness!(c03_is_float_null, V_FLOAT, V_NULL);
is_harness!(c03_is_string_null, V_STRING, V_NULL);
is_harness!(c03_is_bool_null, V_BOOL, V_NULL);
is_harness!(c03_is_timestamp_null, V_TIMESTAMP, V_NULL);
is_harness!(c03_is_interval_null, V_INTERVAL, V_NULL);
is_harness!(c03_is_int_int, V_INT, V_INT);
is_harness!(c03_is_bool_bool, V_BOOL, V_BOOL);
is_harness!(c03_is_string_string, V_STRING, V_STRING);

// ------------------------------------------------------------------------------------------------
// AND / OR are two-valued (operator symbolic): a non-boolean or NULL operand counts as false.
macro_rules! bool_harness {
    ($name:ident, $ta:expr, $tb:expr) => {
        env_stubbed_proof! {
            #[kani::unwind(2)]
            fn $name() {
                let a = Sym::any($ta, 1);
                let b = Sym::any($tb, 1);
                let ops = Ops::new(a.value(), b.value(), null_md());
                let is_or: bool = kani::any();
                let op = if is_or { BooleanOperator::Or } else { BooleanOperator::And };
                let e = ManuallyDrop::new(ExpressionTree::BooleanOperation { operator: op, left: op_a(), right: op_b() });
                let r = eval(&ops, &e);
                let av = $ta == V_BOOL && a.b;
                let bv = $tb == V_BOOL && b.b;
                let expected = if is_or { av || bv } else { av && bv };
                assert!(as_bool(&r) == Some(expected), "C03 AND / OR are two-valued");
                kani::cover!(true, "bool: end reachable");
            }
        }
    };
}
bool_harness!(c03_bool_bool_bool, V_BOOL, V_BOOL);
bool_harness!(c03_bool_bool_null, V_BOOL, V_NULL);
bool_harness!(c03_bool_null_bool, V_NULL, V_BOOL);
bool_harness!(c03_bool_null_null, V_NULL, V_NULL);
bool_harness!(c03_bool_int_bool, V_INT, V_BOOL);
bool_harness!(c03_bool_bool_string, V_BOOL, V_STRING);

// ------------------------------------------------------------------------------------------------
// Unary operators.
env_stubbed_proof! {
    #[kani::unwind(2)]
    fn c03_unary_neg_int() {
        let x: i64 = kani::any();
        let ops = Ops::new(ManuallyDrop::new(Value::Int(x)), null_md(), null_md());
        let e = ManuallyDrop::new(ExpressionTree::UnaryArithmetic { operator: UnaryArithmeticOperator::Negative, operand: op_a() });
        let r = eval(&ops, &e);
        match x.checked_neg() {
            Some(v) => assert!(as_int(&r) == Some(v), "C03 unary minus yields the exact result"),
            None => assert!(is_err(&r), "C03 unary minus overflow is reported as an error"),
        }
        kani::cover!(x == i64::MIN, "neg: MIN reachable");
    }
}

macro_rules! unary_harness {
    ($name:ident, $t:expr) => {
        env_stubbed_proof! {
            #[kani::unwind(2)]
            fn $name() {
                let a = Sym::any($t, 1);
                let ops = Ops::new(a.value(), null_md(), null_md());
                let invert: bool = kani::any();
                let op = if invert { UnaryArithmeticOperator::Invert } else { UnaryArithmeticOperator::Negative };
                if !invert && $t == V_INT { return; }
                let e = ManuallyDrop::new(ExpressionTree::UnaryArithmetic { operator: op, operand: op_a() });
                let r = eval(&ops, &e);
                if $t == V_NULL {
                    assert!(is_null(&r), "C03 unary operator on NULL gives NULL");
                } else if !invert && $t == V_FLOAT {
                    assert!(same_float(as_float_bits(&r), -a.f), "C03 -REAL negates");
                } else if invert && $t == V_BOOL {
                    assert!(as_bool(&r) == Some(!a.b), "C03 NOT inverts");
                } else {
                    assert!(is_err(&r), "C03 unary operator on a value of the wrong type is an error");
                }
                kani::cover!(true, "unary: end reachable");
            }
        }
    };
}
unary_harness!(c03_unary_null, V_NULL);
unary_harness!(c03_unary_float, V_FLOAT);
unary_harness!(c03_unary_bool, V_BOOL);
unary_harness!(c03_unary_string, V_STRING);
unary_harness!(c03_unary_int, V_INT);
unary_harness!(c03_unary_interval, V_INTERVAL);

// ------------------------------------------------------------------------------------------------
// x IN (v1) == (x = v1); x NOT IN (v1) == (x != v1); `is_not` symbolic.  (A list of two entries needs a
// second iteration of the evaluator's loop, i.e. unwind 3, which does not conclude: outside the bound.)
macro_rules! in_harness {
    ($name:ident, $tx:expr, $t1:expr) => {
        env_stubbed_proof! {
            #[kani::unwind(2)]
            fn $name() {
                let x = Sym::any($tx, 1);
                let v1 = Sym::any($t1, 1);
                let ops = Ops::new(x.value(), v1.value(), null_md());
                let is_not: bool = kani::any();
                let e = ManuallyDrop::new(ExpressionTree::In { is_not, operand: op_a(), values: vec![*op_b()] });
                let r = eval(&ops, &e);
                // `=` / `!=` between same-type scalars; false as soon as an operand is NULL
                let eq1 = $tx != V_NULL && $t1 != V_NULL && $tx == $t1 && x.ref_cmp(&v1) == std::cmp::Ordering::Equal;
                let ne1 = $tx != V_NULL && $t1 != V_NULL && !eq1;
                let expected = if is_not { ne1 } else { eq1 };
                assert!(as_bool(&r) == Some(expected), "C03 IN / NOT IN mean the OR of = / the AND of !=");
                kani::cover!(true, "in: end reachable");
            }
        }
    };
}
in_harness!(c03_in_int_int, V_INT, V_INT);
in_harness!(c03_in_null_int, V_NULL, V_INT);
in_harness!(c03_in_int_null, V_INT, V_NULL);
in_harness!(c03_in_null_null, V_NULL, V_NULL);
in_harness!(c03_in_float_float, V_FLOAT, V_FLOAT);
in_harness!(c03_in_string_string, V_STRING, V_STRING);
in_harness!(c03_in_bool_bool, V_BOOL, V_BOOL);

// ------------------------------------------------------------------------------------------------
// CASE takes the first true branch (one WHEN clause: condition = operand a, result 1; else 3).
macro_rules! case_harness {
    ($name:ident, $t1:expr) => {
        env_stubbed_proof! {
            #[kani::unwind(2)]
            fn $name() {
                let c1 = Sym::any($t1, 1);
                let ops = Ops::new(c1.value(), ManuallyDrop::new(Value::Int(1)), ManuallyDrop::new(Value::Int(3)));
                stack_vec!(store, clauses, (ExpressionTree::ScopedColumnAccess(ColumnScope::Table, String::new()), ExpressionTree::ScopedColumnAccess(ColumnScope::AggregationValue, String::new())));
                leaf!(else_store, else_clause, ColumnScope::GroupKey);
                let e = ManuallyDrop::new(ExpressionTree::Case { clauses, else_clause });
                let r = eval(&ops, &e);
                let t1 = $t1 == V_BOOL && c1.b;
                let expected = if t1 { 1 } else { 3 };
                assert!(as_int(&r) == Some(expected), "C03 CASE takes the first true branch");
                kani::cover!(true, "case: end reachable");
            }
        }
    };
}
case_harness!(c03_case_bool, V_BOOL);
case_harness!(c03_case_null, V_NULL);
case_harness!(c03_case_int, V_INT);

// ------------------------------------------------------------------------------------------------
// Array subscripts are 1-based; every subscript outside the array (any i64) yields NULL.
macro_rules! subscript_harness {
    ($name:ident, $len:expr) => {
        env_stubbed_array_proof! {
            #[kani::unwind(2)]
            fn $name() {
                let e0: i64 = kani::any();
                let e1: i64 = kani::any();
                let idx: i64 = kani::any();
                let arr = if $len == 0 { Vec::new() } else { vec![Value::Int(e0)] };
                let ops = Ops::new(ManuallyDrop::new(Value::Array(ValueType::Int, arr)), ManuallyDrop::new(Value::Int(idx)), null_md());
                let e = ManuallyDrop::new(ExpressionTree::ArrayElementAccess { array: op_a(), index: op_b() });
                let r = eval(&ops, &e);
                if idx == 1 && $len >= 1 {
                    assert!(as_int(&r) == Some(e0), "C03 a[1] is the first element");
                } else if idx == 2 && $len >= 2 {
                    assert!(as_int(&r) == Some(e1), "C03 a[2] is the second element");
                } else {
                    assert!(is_null(&r), "C03 a subscript outside the array is NULL");
                }
                kani::cover!(idx == 1 || $len == 0, "subscript: in range (or, for the empty array, the end) reachable");
                kani::cover!(idx == i64::MIN, "subscript: MIN reachable");
            }
        }
    };
}
subscript_harness!(c03_subscript_len0, 0);
subscript_harness!(c03_subscript_len1, 1);

macro_rules! subscript_type_harness {
    ($name:ident, $tarr:expr, $tidx:expr) => {
        env_stubbed_array_proof! {
            #[kani::unwind(2)]
            fn $name() {
                // $tarr == V_ARRAY: a real one-element array and an index of the wrong type; otherwise a non-array
                let a = if $tarr == V_ARRAY { ManuallyDrop::new(Value::Array(ValueType::Int, vec![Value::Int(kani::any())])) } else { Sym::any($tarr, 1).value() };
                let ops = Ops::new(a, Sym::any($tidx, 1).value(), null_md());
                let e = ManuallyDrop::new(ExpressionTree::ArrayElementAccess { array: op_a(), index: op_b() });
                let r = eval(&ops, &e);
                assert!(is_err(&r), "C03 subscripting a non-array or with a non-INT index is an error");
                kani::cover!(true, "subscript type: end reachable");
            }
        }
    };
}
subscript_type_harness!(c03_subscript_int_int, V_INT, V_INT);
subscript_type_harness!(c03_subscript_null_int, V_NULL, V_INT);
subscript_type_harness!(c03_subscript_string_int, V_STRING, V_INT);
subscript_type_harness!(c03_subscript_array_null, V_ARRAY, V_NULL);
subscript_type_harness!(c03_subscript_array_float, V_ARRAY, V_FLOAT);
subscript_type_harness!(c03_subscript_array_string, V_ARRAY, V_STRING);

// ------------------------------------------------------------------------------------------------
// Functions (container-free ones).
fn call1(f: Function) -> MD<ExpressionTree> { ManuallyDrop::new(ExpressionTree::FunctionCall { function: f, arguments: vec![*op_a()] }) }

env_stubbed_proof! {
    #[kani::unwind(2)]
    fn c03_fn_abs_int() {
        let x: i64 = kani::any();
        let ops = Ops::new(ManuallyDrop::new(Value::Int(x)), null_md(), null_md());
        let r = eval(&ops, &call1(Function::Abs));
        match x.checked_abs() {
            Some(v) => assert!(as_int(&r) == Some(v), "C03 abs yields the exact result"),
            None => assert!(is_err(&r), "C03 abs overflow is reported as an error"),
        }
        kani::cover!(x == i64::MIN, "abs: MIN reachable");
    }
}

env_stubbed_proof! {
    #[kani::unwind(2)]
    fn c03_fn_abs_other() {
        let k: u8 = kani::any();
        kani::assume(k < 3);
        let f: f64 = kani::any();
        let a = if k == 0 { null_md() } else if k == 1 { ManuallyDrop::new(Value::Float(Float(f))) } else { ManuallyDrop::new(Value::Bool(kani::any())) };
        let ops = Ops::new(a, null_md(), null_md());
        let r = eval(&ops, &call1(Function::Abs));
        if k == 0 { assert!(is_null(&r), "C03 abs(NULL) is NULL"); }
        else if k == 1 { assert!(same_float(as_float_bits(&r), f.abs()), "C03 abs(REAL)"); }
        else { assert!(is_err(&r), "C03 abs of a non-number is an error"); }
        kani::cover!(k == 2, "abs other: bool reachable");
    }
}

macro_rules! array_length_harness {
    ($name:ident, $len:expr) => {
        env_stubbed_array_proof! {
            #[kani::unwind(2)]
            fn $name() {
                let e0: i64 = kani::any();
                let arr = if $len == 0 { Vec::new() } else { vec![Value::Int(e0)] };
                let ops = Ops::new(ManuallyDrop::new(Value::Array(ValueType::Int, arr)), null_md(), null_md());
                stack_vec!(store, arguments, ExpressionTree::ScopedColumnAccess(ColumnScope::Table, String::new()));
                let e = ManuallyDrop::new(ExpressionTree::FunctionCall { function: Function::ArrayLength, arguments });
                let r = eval(&ops, &e);
                assert!(as_int(&r) == Some($len), "C03 array_length counts the elements");
                kani::cover!(true, "array_length: end reachable");
            }
        }
    };
}
array_length_harness!(c03_fn_array_length_0, 0);
array_length_harness!(c03_fn_array_length_1, 1);

env_stubbed_proof! {
    #[kani::unwind(2)]
    fn c03_fn_wrong_arity_or_type() {
        // a function applied to arguments it is not defined for reports an error
        let ops = Ops::new(ManuallyDrop::new(Value::Bool(kani::any())), null_md(), null_md());
        let k: u8 = kani::any();
        kani::assume(k < 4);
        let r = match k {
            0 => eval(&ops, &call1(Function::Greatest)),
            1 => eval(&ops, &call1(Function::Sqrt)),
            2 => eval(&ops, &call1(Function::Pow)),
            _ => eval(&ops, &call1(Function::ArrayLength)),
        };
        assert!(is_err(&r), "C03 undefined function application is an error");
        kani::cover!(k == 3, "wrong arity: last reachable");
    }
}

// ------------------------------------------------------------------------------------------------
// Casts.
/// x::T for a non-TEXT, non-INTERVAL x and a non-TEXT T: the identity when x already has type T, an error otherwise
/// (there is no implicit numeric coercion; NULL has no type).
macro_rules! cast_harness {
    ($name:ident, $tx:expr, $ty:expr, $identity:expr) => {
        env_stubbed_proof! {
            #[kani::unwind(2)]
            fn $name() {
                let x = Sym::any($tx, 1);
                let ops = Ops::new(x.value(), null_md(), null_md());
                leaf!(operand_store, operand, ColumnScope::Table);
                let e = ManuallyDrop::new(ExpressionTree::TypeConversion { operand, convert_to_type: $ty });
                let r = eval(&ops, &e);
                if $identity {
                    let same = match ($tx, &*r) {
                        (V_INT, Ok(Value::Int(v))) => *v == x.i,
                        (V_BOOL, Ok(Value::Bool(v))) => *v == x.b,
                        (V_FLOAT, Ok(Value::Float(v))) => v.0.to_bits() == x.f.to_bits(),
                        _ => false,
                    };
                    assert!(same, "C03 a cast to the value's own type is the identity");
                } else {
                    assert!(is_err(&r), "C03 a cast that is not defined is an error");
                }
                kani::cover!(true, "cast: end reachable");
            }
        }
    };
}
cast_harness!(c03_cast_int_int, V_INT, ValueType::Int, true);
cast_harness!(c03_cast_bool_bool, V_BOOL, ValueType::Bool, true);
cast_harness!(c03_cast_float_float, V_FLOAT, ValueType::Float, true);
cast_harness!(c03_cast_int_bool, V_INT, ValueType::Bool, false);
cast_harness!(c03_cast_int_float, V_INT, ValueType::Float, false);
cast_harness!(c03_cast_bool_int, V_BOOL, ValueType::Int, false);
cast_harness!(c03_cast_null_int, V_NULL, ValueType::Int, false);

env_stubbed_proof! {
    #[kani::unwind(2)]
    fn c03_cast_interval() {
        let iv = Sym::any(V_INTERVAL, 0);
        let ops = Ops::new(iv.value(), null_md(), null_md());
        let e = ManuallyDrop::new(ExpressionTree::TypeConversion { operand: op_a(), convert_to_type: ValueType::Int });
        let r = eval(&ops, &e);
        // whole seconds, truncated towards zero
        let expected = if iv.secs < 0 && iv.nanos > 0 { iv.secs + 1 } else { iv.secs };
        assert!(as_int(&r) == Some(expected), "C03 INTERVAL::int is the number of whole seconds");
        kani::cover!(iv.secs < 0 && iv.nanos > 0, "cast interval: negative fractional reachable");
    }
}


// ------------------------------------------------------------------------------------------------
// C08 - DISTINCT bookkeeping: DistinctValues::add (real) over the Vec-backed set shim: a tuple is
// reported new exactly when no earlier tuple is equal to it, whatever the columns hold.
use super::helpers::DistinctValues;

fn int_or_null_value(is_null: bool, x: i64) -> Value {
    if is_null { Value::Null } else { Value::Int(x) }
}

macro_rules! distinct_harness {
    ($name:ident, $cols:expr) => {
        #[kani::proof]
        #[kani::unwind(4)]
        #[kani::stub(alloc::fmt::format, crate::verif_kani::common::stub_format)]
        #[kani::stub(<crate::model::Value as std::clone::Clone>::clone, crate::verif_kani::common::stub_value_clone_scalar)]
        fn $name() {
            // three tuples of $cols columns; every column NULL or an INT in 0..3 (so that collisions are likely)
            let n: [bool; 6] = [kani::any(), kani::any(), kani::any(), kani::any(), kani::any(), kani::any()];
            let x: [i64; 6] = [kani::any(), kani::any(), kani::any(), kani::any(), kani::any(), kani::any()];
            kani::assume(x[0] >= 0 && x[0] < 3 && x[1] >= 0 && x[1] < 3 && x[2] >= 0 && x[2] < 3);
            kani::assume(x[3] >= 0 && x[3] < 3 && x[4] >= 0 && x[4] < 3 && x[5] >= 0 && x[5] < 3);
            let mk = |i: usize| -> MD<Vec<Value>> {
                ManuallyDrop::new(if $cols == 1 { vec![int_or_null_value(n[2 * i], x[2 * i])] }
                                  else { vec![int_or_null_value(n[2 * i], x[2 * i]), int_or_null_value(n[2 * i + 1], x[2 * i + 1])] })
            };
            let (t0, t1, t2) = (mk(0), mk(1), mk(2));
            // reference tuple equality from the primitives (NULL equal to NULL, numbers by value)
            let col_eq = |a: usize, b: usize| -> bool { (n[a] && n[b]) || (!n[a] && !n[b] && x[a] == x[b]) };
            let tup_eq = |i: usize, j: usize| -> bool { col_eq(2 * i, 2 * j) && ($cols == 1 || col_eq(2 * i + 1, 2 * j + 1)) };
            let mut d = ManuallyDrop::new(DistinctValues::new());
            let r0 = d.add(&t0);
            let r1 = d.add(&t1);
            let r2 = d.add(&t2);
            assert!(r0, "C08 the first tuple is always new");
            assert!(r1 == !tup_eq(1, 0), "C08 a tuple is emitted exactly when no earlier tuple equals it");
            assert!(r2 == !(tup_eq(2, 0) || tup_eq(2, 1)), "C08 a tuple is emitted exactly when no earlier tuple equals it");
            kani::cover!(!r1 && r2, "distinct: duplicate then new reachable");
            kani::cover!(r1 && !r2, "distinct: new then duplicate reachable");
        }
    };
}
distinct_harness!(c08_distinct_one_column, 1);
distinct_harness!(c08_distinct_two_columns, 2);

// ------------------------------------------------------------------------------------------------
// SelectExecutionEngine::execute (real) over the operand provider: filter -> projection -> DISTINCT
// (C03 row-level clauses, C08 select path, and - for C07 - that the select engine never swallows a row it is handed).
use super::select_execution::SelectExecutionEngine;
use crate::model::SelectStatement;
use crate::execution::ResultRow;

/// One projection `p0` (operand b) and an optional filter (operand a).  The projection list is a Vec whose buffer
/// is a *stack* array (never dropped or grown - everything is ManuallyDrop): CBMC then sees the projection's
/// discriminant as a constant and follows only that arm of `evaluate` (same device as `leaf!`; with the list on the
/// heap the same harness does not conclude in 15 min, with it 20 s).
macro_rules! select_statement_1 {
    ($store:ident, $statement:ident, $filter:expr, $distinct:expr, $limit:expr) => {
        let mut $store = ManuallyDrop::new([(String::from("p0"), ExpressionTree::ScopedColumnAccess(ColumnScope::AggregationValue, String::new()))]);
        let $statement = ManuallyDrop::new(SelectStatement {
            projections: unsafe { Vec::from_raw_parts($store.as_mut_ptr(), 1, 1) },
            from: String::new(), filename: None,
            filter: if $filter { Some(ExpressionTree::ScopedColumnAccess(ColumnScope::Table, String::new())) } else { None },
            join: None, limit: $limit, distinct: $distinct,
        });
    };
}

/// Some(true): exactly one row of one column; Some(false): no row; None: an error or a malformed result
fn emitted(r: &super::ExecutionResult<Option<ResultRow>>) -> Option<bool> {
    match r {
        Ok(None) => Some(false),
        Ok(Some(row)) => if row.data.len() == 1 && row.data[0].columns.len() == 1 && row.columns.len() == 1 { Some(true) } else { None },
        Err(_) => None,
    }
}

fn emitted_int(r: &super::ExecutionResult<Option<ResultRow>>) -> Option<Option<i64>> {
    match emitted(r) {
        Some(false) => Some(None),
        Some(true) => if let Ok(Some(row)) = r { if let Value::Int(x) = &row.data[0].columns[0] { Some(Some(*x)) } else { None } } else { None },
        None => None,
    }
}

/// C03: exactly one output row iff the WHERE condition is true (a NULL or non-boolean condition is not true),
/// holding the projection evaluated on that row, under the projection's name.
macro_rules! select_filter_harness {
    ($name:ident, $tf:expr) => {
        env_stubbed_proof! {
            #[kani::unwind(2)]
            fn $name() {
                let cond = Sym::any($tf, 1);
                let x: i64 = kani::any();
                let ops = Ops::new(cond.value(), ManuallyDrop::new(Value::Int(x)), null_md());
                select_statement_1!(store, statement, true, false, None);
                let mut engine = ManuallyDrop::new(SelectExecutionEngine::new());
                let r = ManuallyDrop::new(engine.execute(&statement, ManuallyDrop::into_inner(ops)));
                let qualifies = $tf == V_BOOL && cond.b;
                assert!(emitted_int(&r) == Some(if qualifies { Some(x) } else { None }), "C03 one output row exactly when the WHERE condition is true, holding the projected value");
                if let Ok(Some(row)) = &*r {
                    assert!(row.columns.len() == 1 && row.columns[0].len() == 2 && row.columns[0].as_bytes()[0] == b'p', "C03 the output column carries the projection's name");
                }
                kani::cover!(emitted_int(&r) == Some(if $tf == V_BOOL { Some(x) } else { None }), "select filter: expected outcome reachable");
            }
        }
    };
}
select_filter_harness!(c03_select_filter_bool, V_BOOL);
select_filter_harness!(c03_select_filter_null, V_NULL);
select_filter_harness!(c03_select_filter_int, V_INT);

/// C08 (select path), two rows of one column of the same concrete variant, payloads symbolic: the second row is
/// emitted exactly when it differs from the first *by value* (NULL equal to NULL, -0.0 equal to 0.0, NaN to NaN).
macro_rules! select_distinct2_harness {
    ($name:ident, $t:expr) => {
        env_stubbed_proof! {
            #[kani::unwind(2)]
            fn $name() {
                let a1 = Sym::any($t, 1);
                let a2 = Sym::any($t, 1);
                select_statement_1!(store, statement, false, true, None);
                let mut engine = ManuallyDrop::new(SelectExecutionEngine::new());
                let o1 = Ops::new(null_md(), a1.value(), null_md());
                let r1 = ManuallyDrop::new(engine.execute(&statement, ManuallyDrop::into_inner(o1)));
                let o2 = Ops::new(null_md(), a2.value(), null_md());
                let r2 = ManuallyDrop::new(engine.execute(&statement, ManuallyDrop::into_inner(o2)));
                let same = a1.ref_cmp(&a2) == std::cmp::Ordering::Equal;
                assert!(emitted(&r1) == Some(true), "C08 the first row is emitted");
                assert!(emitted(&r2) == Some(!same), "C08 a row is emitted exactly when no earlier row has the same tuple of values");
                if $t == V_INT {
                    assert!(emitted_int(&r1) == Some(Some(a1.i)) && (same || emitted_int(&r2) == Some(Some(a2.i))), "C08 DISTINCT leaves the content of surviving rows unchanged");
                }
                kani::cover!(emitted(&r2) == Some($t != V_NULL), "select distinct: second row outcome reachable");
            }
        }
    };
}
select_distinct2_harness!(c08_select_distinct2_int, V_INT);
select_distinct2_harness!(c08_select_distinct2_null, V_NULL);
select_distinct2_harness!(c08_select_distinct2_float, V_FLOAT);
select_distinct2_harness!(c08_select_distinct2_bool, V_BOOL);
select_distinct2_harness!(c08_select_distinct2_string, V_STRING);

/// C08 / C07: three rows x, x, y.  After a duplicate the next new row is still emitted - also when the statement
/// carries a LIMIT that the *emitted* rows have not reached yet (the rows are handed over in the order and to the
/// extent the outer engine would: 1 row emitted < LIMIT 2 when y arrives).
macro_rules! select_distinct3_harness {
    ($name:ident, $limit:expr) => {
        env_stubbed_proof! {
            #[kani::unwind(2)]
            fn $name() {
                let x: i64 = kani::any();
                let y: i64 = kani::any();
                select_statement_1!(store, statement, false, true, $limit);
                let mut engine = ManuallyDrop::new(SelectExecutionEngine::new());
                let o1 = Ops::new(null_md(), ManuallyDrop::new(Value::Int(x)), null_md());
                let r1 = ManuallyDrop::new(engine.execute(&statement, ManuallyDrop::into_inner(o1)));
                let o2 = Ops::new(null_md(), ManuallyDrop::new(Value::Int(x)), null_md());
                let r2 = ManuallyDrop::new(engine.execute(&statement, ManuallyDrop::into_inner(o2)));
                let o3 = Ops::new(null_md(), ManuallyDrop::new(Value::Int(y)), null_md());
                let r3 = ManuallyDrop::new(engine.execute(&statement, ManuallyDrop::into_inner(o3)));
                assert!(emitted_int(&r1) == Some(Some(x)), "C08 the first row is emitted");
                assert!(emitted_int(&r2) == Some(None), "C08 a duplicate of an earlier row is not emitted");
                assert!(emitted_int(&r3) == Some(if y == x { None } else { Some(y) }), "C07/C08 a new row after a duplicate is emitted (a duplicate does not use up the LIMIT)");
                kani::cover!(y != x && emitted_int(&r3) == Some(Some(y)), "select distinct: new third row reachable");
                kani::cover!(y == x, "select distinct: third duplicate reachable");
            }
        }
    };
}
select_distinct3_harness!(c08_select_distinct3_int, None);
select_distinct3_harness!(c07_select_distinct3_limit2, Some(2));

#[cfg(test)]
#[path = "/verif/.cache/playback/execution.rs"]
mod playback_gen;

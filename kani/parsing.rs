// cfg(kani) child module of src/.../parsing.rs (see DESIGN.md §1.1)

// C16 — Value equality, ordering and hashing agree and form a total order.
// One harness per variant shape (R1): the variant is concrete, the payload symbolic.
use std::cmp::Ordering;
use std::mem::ManuallyDrop;

use crate::model::{Float, Value, ValueType};
use super::common::*;

/// Binary laws on one pair: trichotomy/consistency of ==, cmp, partial_cmp, <, and hash.
fn pair_laws(a: &Value, b: &Value, same_variant: bool) {
    let c = a.cmp(b);
    let eq = a == b;
    // L1: equality agrees with the total order
    assert!(eq == (c == Ordering::Equal), "C16-L1 eq<=>cmp==Equal");
    // L2: partial order agrees with the total order
    assert!(a.partial_cmp(b) == Some(c), "C16-L2 partial_cmp==Some(cmp)");
    assert!((a < b) == (c == Ordering::Less), "C16-L2 lt<=>cmp==Less");
    assert!((a > b) == (c == Ordering::Greater), "C16-L2 gt<=>cmp==Greater");
    // L3: antisymmetry
    assert!(b.cmp(a) == c.reverse(), "C16-L3 antisymmetry");
    assert!((b == a) == eq, "C16-L3 eq symmetric");
    // L4: equal values hash equally (every Hasher: same byte stream; and FNV, the DISTINCT hasher)
    if eq {
        assert!(RecordingHasher::of(a).same(&RecordingHasher::of(b)), "C16-L4 equal values feed the hasher equally");
        assert!(fnv_hash(a) == fnv_hash(b), "C16-L4 equal values hash equally (fnv)");
    }
    if same_variant {
        kani::cover!(eq, "pair: equal reachable");
    } else {
        kani::cover!(c != Ordering::Equal, "pair: ordered reachable");
    }
}

/// Reflexivity on one value.
fn refl_laws(a: &Value) {
    assert!(a == a, "C16-L0 reflexive ==");
    assert!(a.cmp(a) == Ordering::Equal, "C16-L0 reflexive cmp");
}

/// Ternary laws: transitivity of <= and of the equivalence induced by cmp.
fn triple_laws(a: &Value, b: &Value, c: &Value) {
    let ab = a.cmp(b);
    let bc = b.cmp(c);
    let ac = a.cmp(c);
    if ab != Ordering::Greater && bc != Ordering::Greater {
        assert!(ac != Ordering::Greater, "C16-L5 transitivity of <=");
    }
    if ab == Ordering::Equal && bc == Ordering::Equal {
        assert!(ac == Ordering::Equal, "C16-L5 transitivity of cmp-equality");
    }
    if ab == Ordering::Less && bc != Ordering::Greater {
        assert!(ac == Ordering::Less, "C16-L5 strict transitivity");
    }
    if a == b && b == c {
        assert!(a == c, "C16-L5 transitivity of ==");
    }
    kani::cover!(true, "triple: end of laws reachable");
}

macro_rules! pair_harness {
    ($name:ident, $ta:expr, $la:expr, $tb:expr, $lb:expr, $unwind:expr) => {
        #[kani::proof]
        #[kani::unwind($unwind)]
        fn $name() {
            let a = any_value($ta, $la);
            let b = any_value($tb, $lb);
            pair_laws(&a, &b, $ta == $tb);
            refl_laws(&a);
        }
    };
}

macro_rules! triple_harness {
    ($name:ident, $ta:expr, $tb:expr, $tc:expr, $len:expr, $unwind:expr) => {
        #[kani::proof]
        #[kani::unwind($unwind)]
        fn $name() {
            let a = any_value($ta, $len);
            let b = any_value($tb, $len);
            let c = any_value($tc, $len);
            triple_laws(&a, &b, &c);
        }
    };
}

// same-variant pairs (scalar variants; arrays: see c16_pair_array1 below and DESIGN.md C16)
pair_harness!(c16_pair_null_null, V_NULL, 0, V_NULL, 0, 10);
pair_harness!(c16_pair_int_int, V_INT, 0, V_INT, 0, 10);
pair_harness!(c16_pair_float_float, V_FLOAT, 0, V_FLOAT, 0, 10);
pair_harness!(c16_pair_bool_bool, V_BOOL, 0, V_BOOL, 0, 10);
pair_harness!(c16_pair_string_string, V_STRING, 0, V_STRING, 0, 10);
pair_harness!(c16_pair_timestamp_timestamp, V_TIMESTAMP, 0, V_TIMESTAMP, 0, 10);
pair_harness!(c16_pair_interval_interval, V_INTERVAL, 0, V_INTERVAL, 0, 10);
pair_harness!(c16_pair_array1_array1, V_ARRAY, 1, V_ARRAY, 1, 2);

// triples
triple_harness!(c16_triple_int, V_INT, V_INT, V_INT, 0, 4);
triple_harness!(c16_triple_float, V_FLOAT, V_FLOAT, V_FLOAT, 0, 4);
triple_harness!(c16_triple_bool, V_BOOL, V_BOOL, V_BOOL, 0, 4);
triple_harness!(c16_triple_string, V_STRING, V_STRING, V_STRING, 0, 4);
triple_harness!(c16_triple_timestamp, V_TIMESTAMP, V_TIMESTAMP, V_TIMESTAMP, 0, 4);
triple_harness!(c16_triple_interval, V_INTERVAL, V_INTERVAL, V_INTERVAL, 0, 4);
triple_harness!(c16_triple_int_float_int, V_INT, V_FLOAT, V_INT, 0, 4);
triple_harness!(c16_triple_float_int_float, V_FLOAT, V_INT, V_FLOAT, 0, 4);

/// Cross-variant pairs of scalar variants: one harness per left variant, 6 right variants each
/// (variant pair concrete per iteration, payloads symbolic) = 42 ordered pairs in total.
macro_rules! cross_harness {
    ($name:ident, $ta:expr) => {
        #[kani::proof]
        #[kani::unwind(10)]
        fn $name() {
            let tags = [V_NULL, V_INT, V_FLOAT, V_BOOL, V_STRING, V_TIMESTAMP, V_INTERVAL];
            let mut k = 0;
            while k < 7 {
                if tags[k] != $ta {
                    let a = any_value($ta, 0);
                    let b = any_value(tags[k], 0);
                    pair_laws(&a, &b, false);
                }
                k += 1;
            }
        }
    };
}
cross_harness!(c16_cross_null, V_NULL);
cross_harness!(c16_cross_int, V_INT);
cross_harness!(c16_cross_float, V_FLOAT);
cross_harness!(c16_cross_bool, V_BOOL);
cross_harness!(c16_cross_string, V_STRING);
cross_harness!(c16_cross_timestamp, V_TIMESTAMP);
cross_harness!(c16_cross_interval, V_INTERVAL);

/// "Numbers compare by numeric value (an INT and a REAL of equal value are not ordered by their
/// type)": for an i64 exactly representable as f64, Int(i) and Float(i as f64) must compare Equal,
/// and Int(i) vs Float(f) must order like the numbers.
#[kani::proof]
fn c16_int_float_numeric() {
    let i: i64 = kani::any();
    kani::assume(i > -(1i64 << 52) && i < (1i64 << 52));
    let f: f64 = kani::any();
    kani::assume(!f.is_nan());
    let a = ManuallyDrop::new(Value::Int(i));
    let b = ManuallyDrop::new(Value::Float(Float(f)));
    let numeric = (i as f64).partial_cmp(&f).unwrap();
    assert!(a.cmp(&b) == numeric, "C16-L6 Int vs Float ordered by numeric value");
    assert!(b.cmp(&a) == numeric.reverse(), "C16-L6 Float vs Int ordered by numeric value");
}

/// Nested values as used as group keys / DISTINCT tuples: Vec<Value> of length 2 (lexicographic).
#[kani::proof]
#[kani::unwind(4)]
fn c16_tuple_int_float() {
    let a = ManuallyDrop::new(vec![Value::Int(kani::any()), Value::Float(Float(kani::any()))]);
    let b = ManuallyDrop::new(vec![Value::Int(kani::any()), Value::Float(Float(kani::any()))]);
    let c = a.cmp(&b);
    let eq = *a == *b;
    assert!(eq == (c == Ordering::Equal), "C16-L1 tuple eq<=>cmp==Equal");
    assert!(b.cmp(&a) == c.reverse(), "C16-L3 tuple antisymmetry");
    if eq {
        assert!(fnv_hash(&*a) == fnv_hash(&*b), "C16-L4 equal tuples hash equally (fnv)");
    }
}

// ------------------------------------------------------------------------------------------------
// Tuples (group keys / DISTINCT rows: Vec<Value>) and ARRAY values with their elements in a *stack* array
// (Vec::from_raw_parts inside ManuallyDrop: never dropped or grown).  With the elements on the heap CBMC treats
// every element's variant as symbolic and walks the recursive Array arm of eq / cmp / hash on each of them (the two
// harnesses above do not conclude); with the buffer on the stack the variants are constants.
macro_rules! stack_values {
    ($store:ident, $v:ident, $($e:expr),+) => {
        let mut $store = ManuallyDrop::new([$($e),+]);
        let $v: ManuallyDrop<Vec<Value>> = ManuallyDrop::new(unsafe { let n = $store.len(); Vec::from_raw_parts($store.as_mut_ptr(), n, n) });
    };
}

fn tuple_laws(a: &Vec<Value>, b: &Vec<Value>) {
    let c = a.cmp(b);
    let eq = a == b;
    assert!(eq == (c == Ordering::Equal), "C16-L1 tuple eq<=>cmp==Equal");
    assert!(a.partial_cmp(b) == Some(c), "C16-L2 tuple partial_cmp==Some(cmp)");
    assert!(b.cmp(a) == c.reverse(), "C16-L3 tuple antisymmetry");
    assert!((b == a) == eq, "C16-L3 tuple eq symmetric");
    if eq {
        assert!(fnv_hash(a) == fnv_hash(b), "C16-L4 equal tuples hash equally (fnv)");
    }
}

#[kani::proof]
#[kani::unwind(10)]
fn c16_tuple2_int_float() {
    let (i1, i2): (i64, i64) = (kani::any(), kani::any());
    let (f1, f2): (f64, f64) = (kani::any(), kani::any());
    stack_values!(sa, a, Value::Int(i1), Value::Float(Float(f1)));
    stack_values!(sb, b, Value::Int(i2), Value::Float(Float(f2)));
    tuple_laws(&a, &b);
    // the tuple order is lexicographic over the element order, tuple equality is element-wise
    let e0 = sa[0].cmp(&sb[0]);
    let e1 = sa[1].cmp(&sb[1]);
    assert!(a.cmp(&b) == (if e0 != Ordering::Equal { e0 } else { e1 }), "C16 tuples are ordered lexicographically by their elements");
    assert!((*a == *b) == (sa[0] == sb[0] && sa[1] == sb[1]), "C16 tuples are equal exactly when all elements are");
    kani::cover!(*a == *b && f1.is_nan(), "tuple: equal with NaN reachable");
    kani::cover!(i1 == i2 && a.cmp(&b) == Ordering::Less, "tuple: decided by second element reachable");
}

#[kani::proof]
#[kani::unwind(10)]
fn c16_tuple2_null_int() {
    let (i1, i2): (i64, i64) = (kani::any(), kani::any());
    stack_values!(sa, a, Value::Null, Value::Int(i1));
    stack_values!(sb, b, Value::Null, Value::Int(i2));
    tuple_laws(&a, &b);
    assert!((*a == *b) == (i1 == i2), "C16 NULL equals NULL inside a tuple");
    kani::cover!(*a == *b, "tuple: equal reachable");
}

// (ARRAY values with stack-held elements - array_pair_harness 1x1, 2x2, 1x2 - were tried the same way: no verdict in 1200 s,
// the derived Value::cmp recurses through its Array arm to the unwinding bound.)

#[cfg(test)]
#[path = "/verif/.cache/playback/c16.rs"]
mod playback_gen;

// cfg(kani) child module of src/.../executor.rs (see DESIGN.md §1.1)

// cfg(kani) child module of src/executor.rs: FileExecutor::execute's reading loop (real, with the real
// std::io::Lines) over the I/O shim reader; the engine below it is a stub that logs what it is given.
// C12 (every line exactly once, in order) and C19 (interrupt).
#![allow(dead_code, unused_imports, unused_macros, static_mut_refs)]

use std::fs::File;
use std::mem::ManuallyDrop;
use std::os::unix::io::FromRawFd;
use std::sync::atomic::{AtomicBool, Ordering};
use std::sync::Arc;

use crate::data_model::Tables;
use crate::execution::execution_engine::{ExecutionConfig, ExecutionEngine, ExecutionOutput};
use crate::execution::{ExecutionResult, ResultRow};
use crate::model::{AggregateStatement, SelectStatement, Statement};
use crate::verif_kani::shim::io::{BufReader, SymFile, FILES, MAX_FILE, READ_BUDGET};

use super::{DisplayOptions, ExecutionStatistics, FileExecutor, OutputFormat, OutputPrinter, Printer};

const MAX_LOG: usize = 6;
static mut LOG_LEN: usize = 0;
static mut LOG_LINE_LEN: [usize; MAX_LOG] = [0; MAX_LOG];
static mut LOG_LINE: [[u8; 3]; MAX_LOG] = [[0; 3]; MAX_LOG];
static mut LOG_OVERFLOW: bool = false;
static mut RESULT_CALLS: usize = 0;
static mut RESULT_AT: usize = 0;          // number of lines logged when the final result was requested
static mut RUNNING: Option<Arc<AtomicBool>> = None;   // the executor's `running` flag (shared with the "user")
static mut STOP_AT: usize = 0;            // the user interrupts once STOP_AT lines have been consumed (0 = before the run)
static mut LINES_AFTER_STOP: usize = 0;   // lines handed to the engine while the flag was already cleared

/// ExecutionEngine::execute: log the line (update calls) or note the final-result call.
fn stub_engine_execute<'a>(_this: &mut ExecutionEngine<'a>, line: String, config: &ExecutionConfig) -> ExecutionResult<ExecutionOutput> where 'a: 'a {
    let line = ManuallyDrop::new(line);
    unsafe {
        if config.update {
            if let Some(flag) = RUNNING.as_ref() {
                if !flag.load(Ordering::SeqCst) { LINES_AFTER_STOP += 1; }
            }
            if LOG_LEN < MAX_LOG {
                let bytes = line.as_bytes();
                LOG_LINE_LEN[LOG_LEN] = bytes.len();
                if bytes.len() > 0 { LOG_LINE[LOG_LEN][0] = bytes[0]; }
                if bytes.len() > 1 { LOG_LINE[LOG_LEN][1] = bytes[1]; }
                if bytes.len() > 2 { LOG_LINE[LOG_LEN][2] = bytes[2]; }
                LOG_LEN += 1;
            } else {
                LOG_OVERFLOW = true;
            }
            // the interrupt arrives while / right after this line is processed
            if LOG_LEN == STOP_AT {
                if let Some(flag) = RUNNING.as_ref() { flag.store(false, Ordering::SeqCst); }
            }
        } else {
            RESULT_CALLS += 1;
            RESULT_AT = LOG_LEN;
        }
    }
    Ok(ExecutionOutput::empty())
}

/// ExecutionEngine::execute_joined_table: the statements of these harnesses have no JOIN (loading a joined file
/// clones table definitions, i.e. compiled regexes, and is outside C12 / C19)
fn stub_execute_joined_table<'a>(_this: &mut ExecutionEngine<'a>, _running: Arc<AtomicBool>) -> ExecutionResult<()> where 'a: 'a {
    std::mem::forget(_running);
    Ok(())
}

struct NullPrinter;
impl Printer for NullPrinter {
    fn println(&mut self, _line: &str) {}
}

fn select_statement() -> ManuallyDrop<Statement> {
    ManuallyDrop::new(Statement::Select(SelectStatement { projections: Vec::new(), from: String::new(), filename: None, filter: None, join: None, limit: None, distinct: false }))
}

fn aggregate_statement() -> ManuallyDrop<Statement> {
    ManuallyDrop::new(Statement::Aggregate(AggregateStatement { aggregates: Vec::new(), from: String::new(), filename: None, filter: None, group_by: None, having: None, join: None, limit: None, distinct: false }))
}

fn reset_log() {
    unsafe {
        LOG_LEN = 0; LOG_OVERFLOW = false; RESULT_CALLS = 0; RESULT_AT = 0; LINES_AFTER_STOP = 0;
        READ_BUDGET = 100;
    }
}

fn any_content(allow_cr: bool) -> [u8; MAX_FILE] {
    let c: [u8; MAX_FILE] = kani::any();
    kani::assume((c[0] == b'a' || c[0] == b'\n' || (allow_cr && c[0] == b'\r'))
        && (c[1] == b'a' || c[1] == b'\n' || (allow_cr && c[1] == b'\r'))
        && (c[2] == b'a' || c[2] == b'\n'));
    c
}

/// reference: the k-th line of content[..len] per the BufRead::lines contract (split at \n, one trailing \r
/// stripped, a final unterminated non-empty piece is a line too) -> (start, end)
fn ref_line(content: &[u8; MAX_FILE], len: usize, k: usize) -> Option<(usize, usize)> {
    let mut start = 0;
    let mut seen = 0;
    let mut i = 0;
    while i < MAX_FILE {
        if i < len && content[i] == b'\n' {
            if seen == k {
                let end = if i > start && content[i - 1] == b'\r' { i - 1 } else { i };
                return Some((start, end));
            }
            seen += 1;
            start = i + 1;
        }
        i += 1;
    }
    if start < len && seen == k { Some((start, len)) } else { None }
}

fn ref_count(content: &[u8; MAX_FILE], len: usize) -> usize {
    let mut n = 0;
    if ref_line(content, len, 0).is_some() { n += 1; }
    if ref_line(content, len, 1).is_some() { n += 1; }
    if ref_line(content, len, 2).is_some() { n += 1; }
    n
}

fn logged_is(i: usize, content: &[u8; MAX_FILE], range: (usize, usize)) -> bool {
    unsafe {
        let (a, b) = range;
        if LOG_LINE_LEN[i] != b - a { return false; }
        let mut k = 0;
        while k < 3 {
            if k < b - a && LOG_LINE[i][k] != content[a + k] { return false; }
            k += 1;
        }
        true
    }
}

macro_rules! executor_proof {
    ($(#[$m:meta])* fn $name:ident() $body:block) => {
        #[kani::proof]
        #[kani::stub(alloc::fmt::format, crate::verif_kani::common::stub_format)]
        #[kani::stub(regex::Regex::new, crate::verif_kani::common::stub_regex_new)]
        #[kani::stub(std::hash::RandomState::new, crate::verif_kani::common::stub_random_state_new)]
        #[kani::stub(crate::execution::execution_engine::ExecutionEngine::execute, stub_engine_execute)]
        #[kani::stub(crate::execution::execution_engine::ExecutionEngine::execute_joined_table, stub_execute_joined_table)]
        $(#[$m])*
        fn $name() $body
    };
}

fn make_executor<'a>(engine: ExecutionEngine<'a>, two_files: bool) -> ManuallyDrop<FileExecutor<'a, NullPrinter>> {
    let mut readers = Vec::new();
    readers.push(BufReader::new(unsafe { File::from_raw_fd(3) }));
    if two_files { readers.push(BufReader::new(unsafe { File::from_raw_fd(4) })); }
    let running = Arc::new(AtomicBool::new(unsafe { STOP_AT } != 0));
    unsafe { RUNNING = Some(running.clone()); }
    ManuallyDrop::new(FileExecutor {
        running,
        readers,
        execution_engine: engine,
        display_options: DisplayOptions { output_format: OutputFormat::Text, single_result: false, print_result: true },
        statistics: ExecutionStatistics { execution_start: unsafe { std::mem::zeroed() }, ingested_bytes: 0, total_lines: 0, total_result_rows: 0 },
        output_printer: OutputPrinter::with_printer(NullPrinter, OutputFormat::Text),
    })
}

// ------------------------------------------------------------------------------------------------
// C12: two files of <= 3 bytes each over {a, \n, \r}: the engine is given exactly the lines of file 1
// then the lines of file 2, in order, byte for byte (CRLF stripped, final unterminated line included).
executor_proof! {
    #[kani::unwind(6)]
    fn c12_two_files_every_line_once() {
        let c0 = any_content(true);
        let c1 = any_content(false);
        let l0: usize = kani::any();
        let l1: usize = kani::any();
        kani::assume(l0 <= 3 && l1 <= 2);
        reset_log();
        unsafe {
            STOP_AT = 1000;
            FILES[0] = SymFile { content: c0, len: l0, visible: l0, pos: 0, growing: false };
            FILES[1] = SymFile { content: c1, len: l1, visible: l1, pos: 0, growing: false };
        }
        let tables = ManuallyDrop::new(Tables::new());
        let statement = select_statement();
        let engine = ExecutionEngine::new(&tables, &statement);
        let mut executor = make_executor(engine, true);
        let result = ManuallyDrop::new(executor.execute());
        assert!(result.is_ok(), "C12 a batch run over readable files succeeds");
        let n0 = ref_count(&c0, l0);
        let n1 = ref_count(&c1, l1);
        unsafe {
            assert!(!LOG_OVERFLOW && LOG_LEN == n0 + n1, "C12 every line of every file reaches the query exactly once");
            if n0 > 0 { assert!(logged_is(0, &c0, ref_line(&c0, l0, 0).unwrap()), "C12 lines arrive in file order, byte for byte"); }
            if n0 > 1 { assert!(logged_is(1, &c0, ref_line(&c0, l0, 1).unwrap()), "C12 lines arrive in file order, byte for byte"); }
            if n0 > 2 { assert!(logged_is(2, &c0, ref_line(&c0, l0, 2).unwrap()), "C12 lines arrive in file order, byte for byte"); }
            if n1 > 0 { assert!(logged_is(n0, &c1, ref_line(&c1, l1, 0).unwrap()), "C12 the second file's lines follow the first file's, byte for byte"); }
            if n1 > 1 { assert!(logged_is(n0 + 1, &c1, ref_line(&c1, l1, 1).unwrap()), "C12 the second file's lines follow the first file's, byte for byte"); }
            assert!(executor.statistics.total_lines == (n0 + n1) as u64, "C12 the line counter counts every line once");
        }
        kani::cover!(n0 == 2 && n1 == 1, "c12: 2 + 1 lines reachable");
        kani::cover!(l0 == 3 && c0[2] != b'\n' && n1 >= 1, "c12: first file without final newline reachable");
    }
}

// ------------------------------------------------------------------------------------------------
// C19: the flag is cleared at an arbitrary point of the schedule: no line is consumed afterwards, no error,
// and an aggregate statement still gets exactly one final-result call over the lines consumed.
macro_rules! interrupt_harness {
    ($name:ident, $aggregate:expr, $fixed:expr) => {
        executor_proof! {
            #[kani::unwind(6)]
            fn $name() {
                // $fixed: the two files are concrete ("a\na" and "a\n": 2 + 1 lines) and only the interrupt point is symbolic
                let c0 = if $fixed { [b'a', b'\n', b'a', 0] } else { any_content(false) };
                let c1 = if $fixed { [b'a', b'\n', 0, 0] } else { any_content(false) };
                let l0: usize = if $fixed { 3 } else { kani::any() };
                let l1: usize = if $fixed { 2 } else { kani::any() };
                kani::assume(l0 <= 3 && l1 <= 2);
                reset_log();
                let stop_at: usize = kani::any();
                kani::assume(stop_at <= 6);
                unsafe {
                    STOP_AT = stop_at;
                    FILES[0] = SymFile { content: c0, len: l0, visible: l0, pos: 0, growing: false };
                    FILES[1] = SymFile { content: c1, len: l1, visible: l1, pos: 0, growing: false };
                }
                let tables = ManuallyDrop::new(Tables::new());
                let statement = if $aggregate { aggregate_statement() } else { select_statement() };
                let engine = ExecutionEngine::new(&tables, &statement);
                let mut executor = make_executor(engine, true);
                let result = ManuallyDrop::new(executor.execute());
                assert!(result.is_ok(), "C19 an interrupted query reports no error");
                let total = ref_count(&c0, l0) + ref_count(&c1, l1);
                unsafe {
                    assert!(LINES_AFTER_STOP == 0, "C19 no input line is consumed after the interrupt");
                    let expected = if stop_at < total { stop_at } else { total };
                    assert!(LOG_LEN == expected, "C19 exactly the lines before the interrupt are consumed");
                    if $aggregate {
                        assert!(RESULT_CALLS == 1 && RESULT_AT == LOG_LEN, "C19 an interrupted aggregate prints the table for exactly the lines consumed");
                    } else {
                        assert!(RESULT_CALLS == 0, "C19 a plain query has no final table");
                    }
                }
                kani::cover!(stop_at == 1 && total >= 3, "c19: interrupt after the first of several lines reachable");
                kani::cover!(stop_at == 0 && total >= 1, "c19: interrupt before the first line reachable");
            }
        }
    };
}
interrupt_harness!(c19_interrupt_select, false, false);
interrupt_harness!(c19_interrupt_aggregate, true, false);
interrupt_harness!(c19_interrupt_point_select, false, true);
interrupt_harness!(c19_interrupt_point_aggregate, true, true);


// ------------------------------------------------------------------------------------------------
// C17 - OutputPrinter::print's record skeleton: one println per row, in result order; in CSV one header
// line before the first record only; the blank separator only after multi-row, non-single results; a lone
// `input` column prints just the value.  The rendered text of values is cut (Display for Value -> empty),
// so a record is identified by its length: the names, separators and delimiters around empty values.
static mut PRINTED: usize = 0;
static mut PRINTED_LEN: [usize; 8] = [0; 8];

struct LenPrinter;
impl Printer for LenPrinter {
    fn println(&mut self, line: &str) {
        unsafe {
            if PRINTED < 8 { PRINTED_LEN[PRINTED] = line.len(); }
            PRINTED += 1;
        }
    }
}

fn one_char_name(c: char) -> String { let mut s = String::new(); s.push(c); s }

fn result_row(rows: usize, first_is_input: bool, cols: usize) -> ManuallyDrop<ResultRow> {
    use crate::data_model::Row;
    use crate::model::Value;
    let mut columns = Vec::new();
    columns.push(if first_is_input { String::from("input") } else { one_char_name('x') });
    if cols > 1 { columns.push(one_char_name('y')); }
    let mut data = Vec::new();
    let mut i = 0;
    while i < rows {
        data.push(if cols > 1 { Row::new(vec![Value::Int(i as i64), Value::Null]) } else { Row::new(vec![Value::Int(i as i64)]) });
        i += 1;
    }
    ManuallyDrop::new(ResultRow { data, columns })
}

macro_rules! printer_proof {
    ($(#[$m:meta])* fn $name:ident() $body:block) => {
        #[kani::proof]
        #[kani::stub(<crate::model::Value as std::clone::Clone>::clone, crate::verif_kani::common::stub_value_clone_scalar)]
        #[kani::stub(<crate::model::Value as std::fmt::Display>::fmt, crate::verif_kani::common::stub_value_display)]
        $(#[$m])*
        fn $name() $body
    };
}

printer_proof! {
    #[kani::unwind(7)]
    fn c17_print_text_records() {
        let rows: usize = kani::any();
        kani::assume(rows <= 2);
        let first_is_input: bool = kani::any();
        let two_cols: bool = kani::any();
        let single: bool = kani::any();
        unsafe { PRINTED = 0; PRINTED_LEN = [0; 8]; }
        let rr = result_row(rows, first_is_input, if two_cols { 2 } else { 1 });
        let mut printer = ManuallyDrop::new(OutputPrinter::with_printer(LenPrinter, OutputFormat::Text));
        printer.print(&rr, single);
        let separator = rows > 1 && !single;
        unsafe {
            assert!(PRINTED == rows + separator as usize, "C17 every row is printed exactly once (plus the blank separator after a multi-row table)");
            // `name: value` pairs joined by ", "; a lone `input` column prints just the value
            let name_len = if first_is_input { 5 } else { 1 };
            let expected = if two_cols { (name_len + 2) + 2 + (1 + 2) } else if first_is_input { 0 } else { name_len + 2 };
            if rows >= 1 { assert!(PRINTED_LEN[0] == expected, "C17 a text record lists name: value pairs in column order (a lone input column prints just the line)"); }
            if rows >= 2 { assert!(PRINTED_LEN[1] == expected, "C17 a text record lists name: value pairs in column order (a lone input column prints just the line)"); }
            if separator { assert!(PRINTED_LEN[rows] == 0, "C17 the separator line is blank"); }
        }
        kani::cover!(rows == 2 && first_is_input && two_cols, "c17 text: input + second column, two rows reachable");
        kani::cover!(rows == 1 && first_is_input && !two_cols, "c17 text: lone input reachable");
    }
}

printer_proof! {
    #[kani::unwind(7)]
    fn c17_print_csv_header_once() {
        let rows1: usize = kani::any();
        let rows2: usize = kani::any();
        kani::assume(rows1 >= 1 && rows1 <= 2 && rows2 <= 2);
        unsafe { PRINTED = 0; PRINTED_LEN = [0; 8]; }
        let r1 = result_row(rows1, false, 2);
        let r2 = result_row(rows2, false, 2);
        let mut printer = ManuallyDrop::new(OutputPrinter::with_printer(LenPrinter, OutputFormat::CSV(String::from(";"))));
        printer.print(&r1, true);
        printer.print(&r2, true);
        unsafe {
            assert!(PRINTED == 1 + rows1 + rows2, "C17 CSV: one header line, then one record per row");
            assert!(PRINTED_LEN[0] == 3, "C17 CSV: the header lists the column names");            // "x;y"
            assert!(PRINTED_LEN[1] == 1, "C17 CSV: every record has one field per column");        // ";"
            if rows1 + rows2 >= 2 { assert!(PRINTED_LEN[2] == 1, "C17 CSV: the header is printed once, before the first record only"); }
            if rows1 + rows2 >= 3 { assert!(PRINTED_LEN[3] == 1, "C17 CSV: the header is printed once, before the first record only"); }
        }
        kani::cover!(rows1 == 1 && rows2 == 2, "c17 csv: 1 + 2 rows reachable");
    }
}


// sanity of the I/O shim under the real std::io::Lines: "a\na" gives the lines "a", "a" and then the end
#[kani::proof]
#[kani::unwind(6)]
fn c12_shim_lines_sanity() {
    use std::io::BufRead;
    reset_log();
    unsafe {
        FILES[0] = SymFile { content: [b'a', b'\n', b'a', 0], len: 3, visible: 3, pos: 0, growing: false };
    }
    let reader = BufReader::new(unsafe { File::from_raw_fd(3) });
    let mut lines = ManuallyDrop::new(reader.lines());
    let l0 = ManuallyDrop::new(lines.next());
    let l1 = ManuallyDrop::new(lines.next());
    let l2 = ManuallyDrop::new(lines.next());
    assert!(matches!(&*l0, Some(Ok(s)) if s.len() == 1 && s.as_bytes()[0] == b'a'), "shim: first line");
    assert!(matches!(&*l1, Some(Ok(s)) if s.len() == 1 && s.as_bytes()[0] == b'a'), "shim: second line (unterminated)");
    assert!(l2.is_none(), "shim: end of file");
    kani::cover!(true, "shim sanity: end");
}

#[cfg(test)]
#[path = "/verif/.cache/playback/executor.rs"]
mod playback_gen;

// cfg(kani) child module of src/data_model.rs: column extraction from split fields (C01), JSON array
// paths (C02) and the admission rule of TableDefinition::extract (C06 part 1).
// The regex engine and serde_json's parser are environment: `ParsingInput::new` is replaced by a stub
// that hands the real extraction code an arbitrary split result / JSON document (symbolic leaves).
#![allow(dead_code, unused_imports, unused_macros, static_mut_refs)]

use std::mem::ManuallyDrop;

use crate::model::{Float, Value, ValueType};
use crate::verif_kani::common::*;
use crate::verif_kani::shim::HashMap as ShimMap;

use super::{ColumnDefinition, ColumnOptions, ColumnParsing, JsonAccess, ParsingInput, RegexResult, RegexResultReference, Row, TableDefinition};

// ---- the environment: what the patterns / the JSON parser found on this line ----------------------
static mut FIELDS: [Option<&'static str>; 3] = [None, None, None];   // split result (index 0 = whole line)
static mut NUM_FIELDS: usize = 0;
static mut PATTERN_MATCHED: bool = true;
static mut JSON: Option<serde_json::Value> = None;
static mut PATTERN_NAME: Option<&'static String> = None;

fn pattern_name() -> &'static String {
    unsafe {
        if PATTERN_NAME.is_none() {
            let mut s = String::new();
            s.push('p');
            PATTERN_NAME = Some(Box::leak(Box::new(s)));
        }
        PATTERN_NAME.unwrap()
    }
}

/// The environment's answer for one line, built directly (ParsingInput's fields are visible to this child
/// module): whether the pattern took part, its split fields, and the parsed JSON document.
fn parsing_input<'a>(matched: bool, fields: &[&'a str], json: serde_json::Value) -> ManuallyDrop<ParsingInput<'a>> {
    let mut regex_results = ShimMap::new();
    if matched {
        let mut v: Vec<&'a str> = Vec::new();
        if fields.len() > 0 { v.push(fields[0]); }
        if fields.len() > 1 { v.push(fields[1]); }
        if fields.len() > 2 { v.push(fields[2]); }
        regex_results.insert(pattern_name(), RegexResult::Split(v));
    }
    ManuallyDrop::new(ParsingInput { regex_results, json_value: json })
}

/// a symbolic field of at most 2 bytes over an alphabet that contains digits, sign, a letter and a space
fn any_field() -> (usize, u8, u8, &'static str) {
    let len: usize = kani::any();
    kani::assume(len <= 2);
    let b0: u8 = kani::any();
    let b1: u8 = kani::any();
    kani::assume(b0 == b'-' || b0 == b'+' || b0 == b' ' || b0 == b'x' || (b0 >= b'0' && b0 <= b'9'));
    kani::assume(b1 == b'-' || b1 == b' ' || b1 == b'x' || (b1 >= b'0' && b1 <= b'9'));
    let mut s = String::new();
    if len > 0 { s.push(b0 as char); }
    if len > 1 { s.push(b1 as char); }
    (len, b0, b1, Box::leak(s.into_boxed_str()))
}

fn digit(b: u8) -> Option<i64> { if b >= b'0' && b <= b'9' { Some((b - b'0') as i64) } else { None } }

/// reference: the INT literal denoted by a field of <= 2 bytes (Rust / SQL integer syntax: [+-]?digits)
fn ref_int(len: usize, b0: u8, b1: u8) -> Option<i64> {
    match len {
        1 => digit(b0),
        2 => match (b0, digit(b0), digit(b1)) {
            (b'-', _, Some(d)) => Some(-d),
            (b'+', _, Some(d)) => Some(d),
            (_, Some(d0), Some(d1)) => Some(d0 * 10 + d1),
            _ => None,
        },
        _ => None,
    }
}

fn regex_column(group_index: usize, column_type: ValueType, nullable: bool, default_value: Option<Value>) -> ColumnDefinition {
    let mut options = ColumnOptions::new();
    options.nullable = nullable;
    options.default_value = default_value;
    ColumnDefinition::with_options(
        ColumnParsing::Regex(RegexResultReference { pattern_name: pattern_name().clone(), group_index }),
        "c", column_type, options)
}

macro_rules! extraction_proof {
    ($(#[$m:meta])* fn $name:ident() $body:block) => {
        #[kani::proof]
        #[kani::stub(regex::Regex::new, crate::verif_kani::common::stub_regex_new)]
        #[kani::stub(chrono::Local::now, crate::verif_kani::common::stub_local_now)]
        #[kani::stub(<chrono::Local as chrono::TimeZone>::offset_from_local_datetime, crate::verif_kani::common::stub_offset_from_local_datetime)]
        #[kani::stub(<chrono::Local as chrono::TimeZone>::offset_from_utc_datetime, crate::verif_kani::common::stub_offset_from_utc_datetime)]
        #[kani::stub(chrono::NaiveDateTime::parse_from_str, crate::verif_kani::common::stub_naive_parse_from_str)]
        #[kani::stub(<crate::model::Value as std::clone::Clone>::clone, crate::verif_kani::common::stub_value_clone_scalar)]
        #[kani::stub(alloc::fmt::format, crate::verif_kani::common::stub_format)]
        $(#[$m])*
        fn $name() $body
    };
}

fn v_int(v: &Value) -> Option<i64> { if let Value::Int(x) = v { Some(*x) } else { None } }
fn v_bool(v: &Value) -> Option<bool> { if let Value::Bool(x) = v { Some(*x) } else { None } }

// ------------------------------------------------------------------------------------------------
// C01: one INT column on split field 1, with or without DEFAULT: the value is exactly the literal of the
// referenced field; DEFAULT only when the pattern or field did not take part; NULL when not a literal.
macro_rules! split_int_harness {
    ($name:ident, $has_default:expr) => {
        extraction_proof! {
            #[kani::unwind(4)]
            fn $name() {
                let (len, b0, b1, field) = any_field();
                let matched: bool = kani::any();
                let nfields: usize = kani::any();
                kani::assume(nfields >= 1 && nfields <= 2);
                let has_default: bool = $has_default;   // concrete: a symbolic Option<Value> would make every clone walk all variants
                let d: i64 = kani::any();
                let all = ["whole line", field];
                let input = parsing_input(matched, &all[..nfields], serde_json::Value::Null);
                let column = ManuallyDrop::new(regex_column(1, ValueType::Int, true, if has_default { Some(Value::Int(d)) } else { None }));
                let value = ManuallyDrop::new(column.parsing.extract(&column, &input));
                let took_part = matched && nfields == 2;
                if !took_part {
                    if has_default { assert!(v_int(&value) == Some(d), "C01 DEFAULT when the pattern or group did not take part"); }
                    else { assert!(value.is_null(), "C01 NULL when the pattern or group did not take part"); }
                } else {
                    match ref_int(len, b0, b1) {
                        Some(v) => assert!(v_int(&value) == Some(v), "C01 the column holds exactly the literal of the referenced field"),
                        None => assert!(value.is_null(), "C01 NULL when the text is not a literal of the type (DEFAULT is not used)"),
                    }
                }
                kani::cover!(took_part && ref_int(len, b0, b1).is_none(), "c01: unparsable field reachable");
                kani::cover!(took_part && len == 2 && b0 == b'-', "c01: negative literal reachable");
            }
        }
    };
}
split_int_harness!(c01_split_int_default, true);
split_int_harness!(c01_split_int_nodefault, false);

// BOOLEAN means the group's existence
extraction_proof! {
    #[kani::unwind(4)]
    fn c01_split_boolean() {
        let (_len, _b0, _b1, field) = any_field();
        let nfields: usize = kani::any();
        kani::assume(nfields >= 1 && nfields <= 2);
        let all = ["whole line", field];
        let input = parsing_input(true, &all[..nfields], serde_json::Value::Null);
        let column = ManuallyDrop::new(regex_column(1, ValueType::Bool, true, None));
        let value = ManuallyDrop::new(column.parsing.extract(&column, &input));
        assert!(v_bool(&value) == Some(nfields == 2), "C01 BOOLEAN means the group's existence");
        kani::cover!(nfields == 1, "c01 bool: absent reachable");
    }
}

// a value is never taken from another field: the column on group g (1 or 2, symbolic) holds field g
extraction_proof! {
    #[kani::unwind(4)]
    fn c01_split_own_field() {
        let (l1, a0, a1, f1) = any_field();
        let (l2, c0, c1, f2) = any_field();
        let g: usize = kani::any();
        kani::assume(g == 1 || g == 2);
        let all = ["whole line", f1, f2];
        let input = parsing_input(true, &all[..], serde_json::Value::Null);
        let column = ManuallyDrop::new(regex_column(g, ValueType::Int, true, None));
        let value = ManuallyDrop::new(column.parsing.extract(&column, &input));
        let expected = if g == 1 { ref_int(l1, a0, a1) } else { ref_int(l2, c0, c1) };
        match expected {
            Some(v) => assert!(v_int(&value) == Some(v), "C01 each column holds its own field"),
            None => assert!(value.is_null(), "C01 each column holds its own field"),
        }
        kani::cover!(g == 2 && expected.is_some(), "c01 own field: second field parsed reachable");
    }
}

// array column assembled position by position; a NULL element keeps its place; NULL only when every element is NULL
extraction_proof! {
    #[kani::unwind(4)]
    fn c01_split_array() {
        let (l1, a0, a1, f1) = any_field();
        let (l2, c0, c1, f2) = any_field();
        let nfields: usize = kani::any();
        kani::assume(nfields >= 1 && nfields <= 3);
        let all = ["whole line", f1, f2];
        let input = parsing_input(true, &all[..nfields], serde_json::Value::Null);
        let mut options = ColumnOptions::new();
        options.nullable = true;
        let column = ManuallyDrop::new(ColumnDefinition::with_options(
            ColumnParsing::MultiRegex(vec![RegexResultReference { pattern_name: pattern_name().clone(), group_index: 1 },
                                           RegexResultReference { pattern_name: pattern_name().clone(), group_index: 2 }]),
            "c", ValueType::Array(Box::new(ValueType::Int)), options));
        let value = ManuallyDrop::new(column.parsing.extract(&column, &input));
        let e1 = if nfields >= 2 { ref_int(l1, a0, a1) } else { None };
        let e2 = if nfields >= 3 { ref_int(l2, c0, c1) } else { None };
        if e1.is_none() && e2.is_none() {
            assert!(value.is_null(), "C01 an array whose elements are all NULL is NULL");
        } else {
            let ok = if let Value::Array(ValueType::Int, items) = &*value {
                items.len() == 2
                    && match (&items[0], e1) { (Value::Int(x), Some(v)) => *x == v, (Value::Null, None) => true, _ => false }
                    && match (&items[1], e2) { (Value::Int(x), Some(v)) => *x == v, (Value::Null, None) => true, _ => false }
            } else { false };
            assert!(ok, "C01 array columns are assembled position by position from their listed groups");
        }
        kani::cover!(e1.is_some() && e2.is_none(), "c01 array: last element NULL reachable");
    }
}

// ------------------------------------------------------------------------------------------------
// C06 part 1: the admission rule of TableDefinition::extract - a line becomes a row iff some column is
// non-NULL (DEFAULT counts) and every NOT NULL column is non-NULL.  Tables without patterns: every regex
// column yields its DEFAULT or NULL, so the NULL pattern is chosen through the DEFAULTs (symbolic).
macro_rules! admission_harness {
    ($name:ident, $d1:expr, $d2:expr) => {
        extraction_proof! {
            #[kani::unwind(4)]
            fn $name() {
                let (d1, d2): (bool, bool) = ($d1, $d2);   // which columns obtain a (DEFAULT) value: concrete per harness
                let (nullable1, nullable2): (bool, bool) = (kani::any(), kani::any());
                let table = ManuallyDrop::new(TableDefinition::new("t", Vec::new(), vec![
                    regex_column(1, ValueType::Int, nullable1, if d1 { Some(Value::Int(0)) } else { None }),
                    regex_column(2, ValueType::Int, nullable2, if d2 { Some(Value::Int(0)) } else { None })]).unwrap());
                let row = ManuallyDrop::new(table.extract(""));
                let expected = (d1 || d2) && (nullable1 || d1) && (nullable2 || d2);
                assert!(row.any_result() == expected, "C06 a line becomes a row iff a column is non-NULL and every NOT NULL column is non-NULL");
                if expected { assert!(row.columns.len() == 2, "C06 an admitted row has every column"); }
                kani::cover!(!nullable1 && !nullable2, "c06 admission: two NOT NULL columns reachable");
            }
        }
    };
}
admission_harness!(c06_admission_both_values, true, true);
admission_harness!(c06_admission_first_null, false, true);
admission_harness!(c06_admission_second_null, true, false);
admission_harness!(c06_admission_both_null, false, false);

// ================================================================================================
// All-stack variants (registered).  The harnesses above keep the environment's answer and the column list in
// heap containers; CBMC then treats every variant of every element as possible and explores all of them (they do
// not conclude).  Here every container the code under test only *reads* has its buffer in a stack array (never
// dropped or grown - everything is ManuallyDrop), so the discriminants are constants; and no lazily initialised
// static is involved (writing a `static mut` before allocating makes CBMC report invalid pointers, DESIGN §6.2).

fn column_on(pname: &String, group_index: usize, column_type: ValueType, nullable: bool, default_value: Option<Value>) -> ColumnDefinition {
    let mut options = ColumnOptions::new();
    options.nullable = nullable;
    options.default_value = default_value;
    ColumnDefinition::with_options(ColumnParsing::Regex(RegexResultReference { pattern_name: pname.clone(), group_index }), "c", column_type, options)
}

/// The environment's answer for one line: `$nfields` split fields (concrete count, symbolic bytes) under the
/// pattern `$pname` when `$matched`; no JSON document.
macro_rules! split_input {
    ($fstore:ident, $mstore:ident, $input:ident, $pname:expr, $matched:expr, $nfields:expr, $f0:expr, $f1:expr, $f2:expr) => {
        let mut $fstore = ManuallyDrop::new([$f0, $f1, $f2]);
        let fields: Vec<&str> = unsafe { Vec::from_raw_parts($fstore.as_mut_ptr(), $nfields, $nfields) };
        let mut $mstore = ManuallyDrop::new([($pname, RegexResult::Split(fields))]);
        let $input = ManuallyDrop::new(ParsingInput {
            regex_results: unsafe { ShimMap::from_raw_entries($mstore.as_mut_ptr(), if $matched { 1 } else { 0 }) },
            json_value: serde_json::Value::Null,
        });
    };
}

/// a symbolic field of 0..1 bytes in a caller-owned buffer (alphabet: digits, sign, space, a letter).  One byte:
/// these harnesses run with unwind 2 (the digit loop of i64::from_str may run once); with unwind 4 the drop glue
/// of Value is unrolled 4 levels at every drop site and the same harness does not conclude in 25 min.
macro_rules! stack_field {
    ($buf:ident, $f:ident, $len:ident, $b0:ident) => {
        let $len: usize = kani::any();
        kani::assume($len <= 1);
        let $b0: u8 = kani::any();
        kani::assume($b0 == b'-' || $b0 == b'+' || $b0 == b' ' || $b0 == b'x' || ($b0 >= b'0' && $b0 <= b'9'));
        let $buf = [$b0];
        let $f: &str = unsafe { std::str::from_utf8_unchecked(&$buf[..$len]) };
    };
}

// C01, INT column on split field 1: one harness per (pattern matched?, field present?, DEFAULT?) shape
macro_rules! c01_int_harness {
    ($name:ident, $matched:expr, $nfields:expr, $has_default:expr) => {
        extraction_proof! {
            #[kani::unwind(2)]
            fn $name() {
                stack_field!(buf, field, len, b0);
                let d: i64 = kani::any();
                let pname = String::from("p");
                split_input!(fstore, mstore, input, &pname, $matched, $nfields, "whole line", field, "");
                let column = ManuallyDrop::new(column_on(&pname, 1, ValueType::Int, true, if $has_default { Some(Value::Int(d)) } else { None }));
                let value = ManuallyDrop::new(column.parsing.extract(&column, &input));
                let took_part = $matched && $nfields >= 2;
                let literal = ref_int(len, b0, 0);
                if !took_part {
                    if $has_default { assert!(v_int(&value) == Some(d), "C01 DEFAULT when the pattern or group did not take part"); }
                    else { assert!(value.is_null(), "C01 NULL when the pattern or group did not take part"); }
                } else {
                    match literal {
                        Some(v) => assert!(v_int(&value) == Some(v), "C01 the column holds exactly the literal of the referenced field"),
                        None => assert!(value.is_null(), "C01 NULL when the text is not a literal of the type (DEFAULT is not used)"),
                    }
                }
                kani::cover!(!took_part || literal.is_none(), "c01 int: no-literal outcome reachable");
                kani::cover!(!took_part || literal == Some(7), "c01 int: literal outcome reachable");
            }
        }
    };
}
c01_int_harness!(c01_int_field_default, true, 2, true);
c01_int_harness!(c01_int_field_nodefault, true, 2, false);
c01_int_harness!(c01_int_nofield_default, true, 1, true);
c01_int_harness!(c01_int_nofield_nodefault, true, 1, false);
c01_int_harness!(c01_int_unmatched_default, false, 2, true);
c01_int_harness!(c01_int_unmatched_nodefault, false, 2, false);

// C01, BOOLEAN means the group's existence (whatever the field holds)
macro_rules! c01_bool_harness {
    ($name:ident, $nfields:expr) => {
        extraction_proof! {
            #[kani::unwind(2)]
            fn $name() {
                stack_field!(buf, field, len, b0);
                let pname = String::from("p");
                split_input!(fstore, mstore, input, &pname, true, $nfields, "whole line", field, "");
                let column = ManuallyDrop::new(column_on(&pname, 1, ValueType::Bool, true, None));
                let value = ManuallyDrop::new(column.parsing.extract(&column, &input));
                assert!(v_bool(&value) == Some($nfields >= 2), "C01 BOOLEAN means the group's existence");
                kani::cover!(true, "c01 bool: end reachable");
            }
        }
    };
}
c01_bool_harness!(c01_bool_field, 2);
c01_bool_harness!(c01_bool_nofield, 1);

// C01, TEXT holds exactly the field's text; a value is never taken from another field (column on field g of 2)
macro_rules! c01_text_harness {
    ($name:ident, $g:expr) => {
        extraction_proof! {
            #[kani::unwind(2)]
            fn $name() {
                stack_field!(buf1, f1, l1, a0);
                stack_field!(buf2, f2, l2, c0);
                let pname = String::from("p");
                split_input!(fstore, mstore, input, &pname, true, 3, "whole line", f1, f2);
                let column = ManuallyDrop::new(column_on(&pname, $g, ValueType::String, true, None));
                let value = ManuallyDrop::new(column.parsing.extract(&column, &input));
                let (el, eb) = if $g == 1 { (l1, a0) } else { (l2, c0) };
                let ok = if let Value::String(s) = &*value { s.len() == el && (el == 0 || s.as_bytes()[0] == eb) } else { false };
                assert!(ok, "C01 a TEXT column holds exactly the text of its own field");
                kani::cover!(l1 == 1 && l2 == 1 && a0 != c0, "c01 text: two different fields reachable");
            }
        }
    };
}
c01_text_harness!(c01_text_field1_of_2, 1);
c01_text_harness!(c01_text_field2_of_2, 2);

macro_rules! c01_own_field_harness {
    ($name:ident, $g:expr) => {
        extraction_proof! {
            #[kani::unwind(2)]
            fn $name() {
                stack_field!(buf1, f1, l1, a0);
                stack_field!(buf2, f2, l2, c0);
                let pname = String::from("p");
                split_input!(fstore, mstore, input, &pname, true, 3, "whole line", f1, f2);
                let column = ManuallyDrop::new(column_on(&pname, $g, ValueType::Int, true, None));
                let value = ManuallyDrop::new(column.parsing.extract(&column, &input));
                let expected = if $g == 1 { ref_int(l1, a0, 0) } else { ref_int(l2, c0, 0) };
                match expected {
                    Some(v) => assert!(v_int(&value) == Some(v), "C01 each column holds its own field"),
                    None => assert!(value.is_null(), "C01 each column holds its own field"),
                }
                kani::cover!(expected.is_some() && ref_int(l1, a0, 0) != ref_int(l2, c0, 0), "c01 own field: fields differ reachable");
            }
        }
    };
}
c01_own_field_harness!(c01_int_field1_of_2, 1);
c01_own_field_harness!(c01_int_field2_of_2, 2);

// C01, one-element array column: NULL when its element is NULL, else the one-element array
macro_rules! c01_array1_harness {
    ($name:ident, $nfields:expr) => {
        extraction_proof! {
            #[kani::unwind(2)]
            fn $name() {
                stack_field!(buf, field, len, b0);
                let pname = String::from("p");
                split_input!(fstore, mstore, input, &pname, true, $nfields, "whole line", field, "");
                let mut rstore = ManuallyDrop::new([RegexResultReference { pattern_name: pname.clone(), group_index: 1 }]);
                let mut options = ColumnOptions::new();
                options.nullable = true;
                let column = ManuallyDrop::new(ColumnDefinition::with_options(
                    ColumnParsing::MultiRegex(unsafe { Vec::from_raw_parts(rstore.as_mut_ptr(), 1, 1) }),
                    "c", ValueType::Array(Box::new(ValueType::Int)), options));
                let value = ManuallyDrop::new(column.parsing.extract(&column, &input));
                let e = if $nfields >= 2 { ref_int(len, b0, 0) } else { None };
                match e {
                    None => assert!(value.is_null(), "C01 an array whose elements are all NULL is NULL"),
                    Some(v) => {
                        let ok = if let Value::Array(ValueType::Int, items) = &*value { items.len() == 1 && v_int(&items[0]) == Some(v) } else { false };
                        assert!(ok, "C01 array columns are assembled position by position from their listed groups");
                    }
                }
                kani::cover!($nfields < 2 || e.is_some(), "c01 array: element outcome reachable");
            }
        }
    };
}
c01_array1_harness!(c01_array1_field, 2);
c01_array1_harness!(c01_array1_nofield, 1);

// C06 part 1, admission rule of TableDefinition::extract: two INT columns of a table without patterns (each
// obtains its DEFAULT or NULL: which, is concrete per harness), NOT NULL flags and DEFAULT values symbolic.
macro_rules! c06_admit_harness {
    ($name:ident, $d1:expr, $d2:expr) => {
        extraction_proof! {
            #[kani::unwind(3)]
            fn $name() {
                let (nullable1, nullable2): (bool, bool) = (kani::any(), kani::any());
                let x1: i64 = kani::any();
                let x2: i64 = kani::any();
                let pname = String::new();
                let mut cstore = ManuallyDrop::new([
                    column_on(&pname, 1, ValueType::Int, nullable1, if $d1 { Some(Value::Int(x1)) } else { None }),
                    column_on(&pname, 2, ValueType::Int, nullable2, if $d2 { Some(Value::Int(x2)) } else { None })]);
                let table = ManuallyDrop::new(TableDefinition {
                    name: String::new(), patterns: Vec::new(),
                    columns: unsafe { Vec::from_raw_parts(cstore.as_mut_ptr(), 2, 2) },
                    fully_qualified_column_names: Vec::new(), any_json_columns: false });
                let row = ManuallyDrop::new(table.extract(""));
                let expected = ($d1 || $d2) && (nullable1 || $d1) && (nullable2 || $d2);
                assert!(row.any_result() == expected, "C06 a line becomes a row iff a column is non-NULL and every NOT NULL column is non-NULL");
                if expected {
                    assert!(row.columns.len() == 2, "C06 an admitted row has every column");
                    assert!(if $d1 { v_int(&row.columns[0]) == Some(x1) } else { row.columns[0].is_null() }, "C06 an admitted row holds each column's value");
                    assert!(if $d2 { v_int(&row.columns[1]) == Some(x2) } else { row.columns[1].is_null() }, "C06 an admitted row holds each column's value");
                }
                kani::cover!(!nullable1 && !nullable2, "c06 admission: two NOT NULL columns reachable");
            }
        }
    };
}
c06_admit_harness!(c06_admit_both_values, true, true);
c06_admit_harness!(c06_admit_first_null, false, true);
c06_admit_harness!(c06_admit_second_null, true, false);
c06_admit_harness!(c06_admit_both_null, false, false);

// ------------------------------------------------------------------------------------------------
// C02: JSON array paths `{[i]}` / `{[i][j]}` on a JSON array document with symbolic leaves.
fn any_json_leaf() -> (u8, i64, u64, f64, bool, serde_json::Value) {
    let kind: u8 = kani::any();
    kani::assume(kind < 6);
    let i: i64 = kani::any();
    let u: u64 = kani::any();
    let f: f64 = kani::any();
    kani::assume(f.is_finite());
    let b: bool = kani::any();
    let v = match kind {
        0 => serde_json::Value::Null,
        1 => serde_json::Value::Bool(b),
        2 => serde_json::Value::Number(serde_json::Number::from(i)),
        3 => serde_json::Value::Number(serde_json::Number::from(u)),
        4 => serde_json::Value::Number(serde_json::Number::from_f64(f).unwrap()),
        _ => serde_json::Value::String(String::new()),
    };
    (kind, i, u, f, b, v)
}

fn json_column(access: JsonAccess, column_type: ValueType, default_value: Option<Value>) -> ColumnDefinition {
    let mut options = ColumnOptions::new();
    options.default_value = default_value;
    ColumnDefinition::with_options(ColumnParsing::Json(access), "c", column_type, options)
}

macro_rules! json_harness {
    ($name:ident, $ty:expr, $tyk:expr, $has_default:expr) => {
        extraction_proof! {
            #[kani::unwind(4)]
            fn $name() {
                let (kind, i, u, f, b, leaf) = any_json_leaf();
                let index: usize = kani::any();
                kani::assume(index <= 2);
                let has_default: bool = $has_default;
                // document: [leaf, ""]  (index 0 -> leaf, index 1 -> a string, index 2 -> absent)
                let input = parsing_input(false, &[], serde_json::Value::Array(vec![leaf, serde_json::Value::String(String::new())]));
                let default = if has_default { Some(match $tyk { 0 => Value::Int(7), 1 => Value::Float(Float(7.0)), 2 => Value::Bool(true), _ => Value::String(String::new()) }) } else { None };
                let column = ManuallyDrop::new(json_column(JsonAccess::Array { index, inner: None }, $ty, default));
                let value = ManuallyDrop::new(column.parsing.extract(&column, &input));
                let c: &Value = &value;
                if index == 2 {
                    if has_default { assert!(!c.is_null(), "C02 DEFAULT when the path is absent"); }
                    else { assert!(c.is_null(), "C02 NULL when the path is absent"); }
                } else if index == 1 {
                    if $tyk == 3 { assert!(matches!(c, Value::String(_)), "C02 TEXT only from strings"); }
                    else { assert!(c.is_null(), "C02 NULL when the JSON value has another type (DEFAULT is not used)"); }
                } else {
                    let ok = match ($tyk, kind) {
                        (0, 2) => matches!(c, Value::Int(x) if *x == i),
                        (0, 3) => if u <= i64::MAX as u64 { matches!(c, Value::Int(x) if *x == u as i64) } else { c.is_null() },
                        (1, 2) => matches!(c, Value::Float(x) if x.0 == i as f64),
                        (1, 3) => matches!(c, Value::Float(x) if x.0 == u as f64),
                        (1, 4) => matches!(c, Value::Float(x) if x.0 == f),
                        (2, 1) => matches!(c, Value::Bool(x) if *x == b),
                        (3, 5) => matches!(c, Value::String(_)),
                        _ => c.is_null(),
                    };
                    assert!(ok, "C02 the column holds the addressed JSON value typed without coercion, NULL on a type mismatch (DEFAULT is not used)");
                }
                kani::cover!(index == 0 && kind == 3 && u > i64::MAX as u64, "c02: u64 beyond i64 reachable");
                kani::cover!(index == 0 && kind == 0, "c02: JSON null leaf reachable");
            }
        }
    };
}
json_harness!(c02_json_index_int, ValueType::Int, 0, false);
json_harness!(c02_json_index_int_default, ValueType::Int, 0, true);
json_harness!(c02_json_index_real, ValueType::Float, 1, false);
json_harness!(c02_json_index_real_default, ValueType::Float, 1, true);
json_harness!(c02_json_index_boolean, ValueType::Bool, 2, false);
json_harness!(c02_json_index_text, ValueType::String, 3, false);
json_harness!(c02_json_index_text_default, ValueType::String, 3, true);

// nested index path built by JsonAccess::from_linear: {[i][j]} on [[leaf, true], 5]
extraction_proof! {
    #[kani::unwind(4)]
    fn c02_json_nested_path() {
        let (kind, i, _u, _f, _b, leaf) = any_json_leaf();
        let i0: usize = kani::any();
        let i1: usize = kani::any();
        kani::assume(i0 <= 2 && i1 <= 2);
        let input = parsing_input(false, &[], serde_json::Value::Array(vec![
            serde_json::Value::Array(vec![leaf, serde_json::Value::Bool(true)]),
            serde_json::Value::Number(serde_json::Number::from(5i64))]));
        let access = JsonAccess::from_linear(vec![JsonAccess::Array { index: i0, inner: None }, JsonAccess::Array { index: i1, inner: None }]);
        let column = ManuallyDrop::new(json_column(access, ValueType::Int, None));
        let value = ManuallyDrop::new(column.parsing.extract(&column, &input));
        if i0 == 0 && i1 == 0 && kind == 2 {
            assert!(v_int(&value) == Some(i), "C02 a nested path addresses exactly that element");
        } else {
            assert!(value.is_null(), "C02 NULL when the path is absent or the value has another type");
        }
        kani::cover!(i0 == 0 && i1 == 0 && kind == 2, "c02 nested: hit reachable");
        kani::cover!(i0 == 1, "c02 nested: through a number reachable");
    }
}

// ================================================================================================
// C02, all-stack: {[i]} on the document [leaf, ""] (leaf kind concrete per harness, payload symbolic; i symbolic
// in 0..=2: the leaf, a string, absent) and {[0][j]} on [[leaf, true], 5].
macro_rules! c02_leaf {
    ($kind:expr, $i:ident, $u:ident, $f:ident, $b:ident) => {
        match $kind {
            0 => serde_json::Value::Null,
            1 => serde_json::Value::Bool($b),
            2 => serde_json::Value::Number(serde_json::Number::from($i)),
            3 => serde_json::Value::Number(serde_json::Number::from($u)),
            4 => serde_json::Value::Number(serde_json::Number::from_f64($f).unwrap()),
            _ => serde_json::Value::String(String::new()),
        }
    };
}

/// reference typing table: the JSON value typed without coercion; None = NULL
fn c02_expected_ok(tyk: u8, kind: u8, c: &Value, i: i64, u: u64, f: f64, b: bool) -> bool {
    match (tyk, kind) {
        (0, 2) => matches!(c, Value::Int(x) if *x == i),
        (0, 3) => if u <= i64::MAX as u64 { matches!(c, Value::Int(x) if *x == u as i64) } else { c.is_null() },
        (1, 2) => matches!(c, Value::Float(x) if x.0 == i as f64),
        (1, 3) => matches!(c, Value::Float(x) if x.0 == u as f64),
        (1, 4) => matches!(c, Value::Float(x) if x.0.to_bits() == f.to_bits()),
        (2, 1) => matches!(c, Value::Bool(x) if *x == b),
        (3, 5) => matches!(c, Value::String(s) if s.len() == 0),
        _ => c.is_null(),
    }
}

macro_rules! c02_index_harness {
    ($name:ident, $ty:expr, $tyk:expr, $kind:expr, $has_default:expr) => {
        extraction_proof! {
            #[kani::unwind(2)]
            fn $name() {
                let i: i64 = kani::any();
                let u: u64 = kani::any();
                let f: f64 = kani::any();
                kani::assume(f.is_finite());
                let b: bool = kani::any();
                let index: usize = kani::any();
                kani::assume(index <= 2);
                let mut dstore = ManuallyDrop::new([c02_leaf!($kind, i, u, f, b), serde_json::Value::String(String::new())]);
                let mut estore: ManuallyDrop<[(&String, RegexResult); 0]> = ManuallyDrop::new([]);
                let input = ManuallyDrop::new(ParsingInput {
                    regex_results: unsafe { ShimMap::from_raw_entries(estore.as_mut_ptr(), 0) },
                    json_value: serde_json::Value::Array(unsafe { Vec::from_raw_parts(dstore.as_mut_ptr(), 2, 2) }),
                });
                let default = if $has_default { Some(match $tyk { 0 => Value::Int(7), 1 => Value::Float(Float(7.0)), 2 => Value::Bool(true), _ => Value::String(String::from("d")) }) } else { None };
                let column = ManuallyDrop::new(json_column(JsonAccess::Array { index, inner: None }, $ty, default));
                let value = ManuallyDrop::new(column.parsing.extract(&column, &input));
                let c: &Value = &value;
                if index == 2 {
                    if $has_default { assert!(!c.is_null(), "C02 DEFAULT when the path is absent"); }
                    else { assert!(c.is_null(), "C02 NULL when the path is absent"); }
                } else if index == 1 {
                    if $tyk == 3 { assert!(matches!(c, Value::String(s) if s.len() == 0), "C02 TEXT only from strings"); }
                    else { assert!(c.is_null(), "C02 NULL when the JSON value has another type (DEFAULT is not used)"); }
                } else {
                    assert!(c02_expected_ok($tyk, $kind, c, i, u, f, b), "C02 the column holds the addressed JSON value typed without coercion, NULL on a type mismatch (DEFAULT is not used)");
                }
                kani::cover!(index == 0, "c02: leaf addressed reachable");
                kani::cover!(index == 2, "c02: absent path reachable");
            }
        }
    };
}
c02_index_harness!(c02_int_from_i64, ValueType::Int, 0, 2, false);
c02_index_harness!(c02_int_from_u64, ValueType::Int, 0, 3, false);
c02_index_harness!(c02_int_from_f64_default, ValueType::Int, 0, 4, true);
c02_index_harness!(c02_int_from_null_default, ValueType::Int, 0, 0, true);
c02_index_harness!(c02_int_from_bool, ValueType::Int, 0, 1, false);
c02_index_harness!(c02_int_from_string_default, ValueType::Int, 0, 5, true);
c02_index_harness!(c02_real_from_i64, ValueType::Float, 1, 2, false);
c02_index_harness!(c02_real_from_u64, ValueType::Float, 1, 3, false);
c02_index_harness!(c02_real_from_f64, ValueType::Float, 1, 4, false);
c02_index_harness!(c02_real_from_null_default, ValueType::Float, 1, 0, true);
c02_index_harness!(c02_real_from_string, ValueType::Float, 1, 5, false);
c02_index_harness!(c02_bool_from_bool, ValueType::Bool, 2, 1, false);
c02_index_harness!(c02_bool_from_i64_default, ValueType::Bool, 2, 2, true);
c02_index_harness!(c02_bool_from_null, ValueType::Bool, 2, 0, false);
c02_index_harness!(c02_text_from_string, ValueType::String, 3, 5, false);
c02_index_harness!(c02_text_from_i64_default, ValueType::String, 3, 2, true);
c02_index_harness!(c02_text_from_null_default, ValueType::String, 3, 0, true);

// nested path {[i0][i1]} => INT on [[leaf, true], 5]: only [0][0] addresses the leaf
macro_rules! c02_nested_harness {
    ($name:ident, $kind:expr) => {
        extraction_proof! {
            #[kani::unwind(2)]
            fn $name() {
                let i: i64 = kani::any();
                let u: u64 = kani::any();
                let f: f64 = kani::any();
                kani::assume(f.is_finite());
                let b: bool = kani::any();
                let i0: usize = kani::any();
                let i1: usize = kani::any();
                kani::assume(i0 <= 2 && i1 <= 2);
                let mut istore = ManuallyDrop::new([c02_leaf!($kind, i, u, f, b), serde_json::Value::Bool(true)]);
                let mut dstore = ManuallyDrop::new([serde_json::Value::Array(unsafe { Vec::from_raw_parts(istore.as_mut_ptr(), 2, 2) }),
                                                    serde_json::Value::Number(serde_json::Number::from(5i64))]);
                let mut estore: ManuallyDrop<[(&String, RegexResult); 0]> = ManuallyDrop::new([]);
                let input = ManuallyDrop::new(ParsingInput {
                    regex_results: unsafe { ShimMap::from_raw_entries(estore.as_mut_ptr(), 0) },
                    json_value: serde_json::Value::Array(unsafe { Vec::from_raw_parts(dstore.as_mut_ptr(), 2, 2) }),
                });
                let mut inner_store = ManuallyDrop::new(JsonAccess::Array { index: i1, inner: None });
                let inner: Box<JsonAccess> = unsafe { Box::from_raw(&mut *inner_store as *mut JsonAccess) };
                let column = ManuallyDrop::new(json_column(JsonAccess::Array { index: i0, inner: Some(inner) }, ValueType::Int, None));
                let value = ManuallyDrop::new(column.parsing.extract(&column, &input));
                if i0 == 0 && i1 == 0 {
                    assert!(c02_expected_ok(0, $kind, &value, i, u, f, b), "C02 a nested path addresses exactly that element");
                } else {
                    assert!(value.is_null(), "C02 NULL when the path is absent or the value has another type");
                }
                kani::cover!(i0 == 0 && i1 == 0, "c02 nested: hit reachable");
                kani::cover!(i0 == 1, "c02 nested: through a number reachable");
            }
        }
    };
}
c02_nested_harness!(c02_nested_int_from_i64, 2);
c02_nested_harness!(c02_nested_int_from_null, 0);

#[cfg(test)]
#[path = "/verif/.cache/playback/data_model.rs"]
mod playback_gen;

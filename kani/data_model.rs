// cfg(kani) child module of src/.../data_model.rs (see DESIGN.md §1.1)

// cfg(kani) child module of src/parsing/parser.rs: operator precedence (C13) and clause order (C20)
// on token sequences (the tokenizer is not involved; operator tables come through the container shim).
#![allow(dead_code, unused_imports, unused_macros)]

use std::mem::ManuallyDrop;

use crate::model::{BooleanOperator, NullableCompareOperator, Value};
use crate::parsing::operator::{BinaryOperators, Operator, UnaryOperators};
use crate::parsing::tokenizer::{Keyword, Token};
use crate::verif_kani::common::*;

use super::{Parser, ParserExpressionTree, ParserExpressionTreeData, ParserOperationTree};

// ---- C13 part 1: the precedence levels ------------------------------------------------------------
// classes of the statement, tightest first
const CL_POSTFIX: u8 = 6;   // cast ::, subscript [, qualified name .
const CL_MUL: u8 = 5;       // * /
const CL_ADD: u8 = 4;       // + -
const CL_CMP: u8 = 3;       // < <= > >= = != IS IS NOT IN NOT IN
const CL_AND: u8 = 2;
const CL_OR: u8 = 1;

fn class_token(class: u8, k: u8) -> Token {
    match class {
        CL_POSTFIX => match k % 3 { 0 => Token::DoubleColon, 1 => Token::LeftSquareParentheses, _ => Token::Operator(Operator::Single('.')) },
        CL_MUL => if k % 2 == 0 { Token::Operator(Operator::Single('*')) } else { Token::Operator(Operator::Single('/')) },
        CL_ADD => if k % 2 == 0 { Token::Operator(Operator::Single('+')) } else { Token::Operator(Operator::Single('-')) },
        CL_CMP => match k % 10 {
            0 => Token::Operator(Operator::Single('<')), 1 => Token::Operator(Operator::Dual('<', '=')),
            2 => Token::Operator(Operator::Single('>')), 3 => Token::Operator(Operator::Dual('>', '=')),
            4 => Token::Operator(Operator::Single('=')), 5 => Token::Operator(Operator::Dual('!', '=')),
            6 => Token::Keyword(Keyword::Is), 7 => Token::Keyword(Keyword::IsNot),
            8 => Token::Keyword(Keyword::In), _ => Token::Keyword(Keyword::NotIn) },
        CL_AND => Token::Keyword(Keyword::And),
        _ => Token::Keyword(Keyword::Or),
    }
}

fn impl_precedence(binary: &BinaryOperators, unary: &UnaryOperators, token: Token) -> i32 {
    let mut parser = ManuallyDrop::new(Parser::from_plain_tokens(binary, unary, vec![token, Token::End]));
    // (results are never dropped: the drop glue of ParserError -> ParserErrorType -> ValueType recurses to the unwinding bound)
    let moved = ManuallyDrop::new(parser.next().map(|_| ()));
    if moved.is_err() { return -100; }
    let r = ManuallyDrop::new(parser.get_token_precedence());
    match &*r { Ok(p) => *p, Err(_) => -100 }
}

/// every operator of the tighter class binds strictly tighter than every operator of the looser class
macro_rules! prec_harness {
    ($name:ident, $tight:expr, $loose:expr) => {
        #[kani::proof]
        #[kani::unwind(16)]
        #[kani::stub(alloc::fmt::format, crate::verif_kani::common::stub_format)]
        fn $name() {
            let k1: u8 = kani::any();
            let k2: u8 = kani::any();
            kani::assume(k1 < 30 && k2 < 30);
            let binary = ManuallyDrop::new(BinaryOperators::new());
            let unary = ManuallyDrop::new(UnaryOperators::new());
            let p_tight = impl_precedence(&binary, &unary, class_token($tight, k1));
            let p_loose = impl_precedence(&binary, &unary, class_token($loose, k2));
            assert!(p_tight >= 0 && p_loose >= 0, "C13 every binary operator token has a precedence");
            assert!(p_tight > p_loose, "C13 operators of a tighter class bind strictly tighter");
            kani::cover!(true, "prec: end reachable");
        }
    };
}
prec_harness!(c13_prec_postfix_mul, CL_POSTFIX, CL_MUL);
prec_harness!(c13_prec_mul_add, CL_MUL, CL_ADD);
prec_harness!(c13_prec_add_cmp, CL_ADD, CL_CMP);
prec_harness!(c13_prec_cmp_and, CL_CMP, CL_AND);
prec_harness!(c13_prec_and_or, CL_AND, CL_OR);
prec_harness!(c13_prec_mul_cmp, CL_MUL, CL_CMP);
prec_harness!(c13_prec_add_and, CL_ADD, CL_AND);
prec_harness!(c13_prec_cmp_or, CL_CMP, CL_OR);

/// operators of one arithmetic class share one level (left-associative chains depend on it)
#[kani::proof]
#[kani::unwind(16)]
#[kani::stub(alloc::fmt::format, crate::verif_kani::common::stub_format)]
fn c13_prec_same_level() {
    let binary = ManuallyDrop::new(BinaryOperators::new());
    let unary = ManuallyDrop::new(UnaryOperators::new());
    let p = |c: char| impl_precedence(&binary, &unary, Token::Operator(Operator::Single(c)));
    assert!(p('*') == p('/'), "C13 * and / share a level");
    assert!(p('+') == p('-'), "C13 + and - share a level");
    kani::cover!(true, "same level: end reachable");
}

// ---- C13 part 2: precedence climbing on operator chains ------------------------------------------
fn ident(c: char) -> Token {
    let mut s = String::new();
    s.push(c);
    Token::Identifier(s)
}

fn is_column(t: &ParserExpressionTree, c: char) -> bool {
    if let ParserExpressionTreeData::ColumnAccess(name) = &t.tree {
        name.len() == 1 && name.as_bytes()[0] == c as u8
    } else { false }
}

fn as_binary(t: &ParserExpressionTree) -> Option<(Operator, &ParserExpressionTree, &ParserExpressionTree)> {
    if let ParserExpressionTreeData::BinaryOperator { operator, left, right } = &t.tree { Some((*operator, &**left, &**right)) } else { None }
}

fn arith(k: u8) -> char { match k % 4 { 0 => '+', 1 => '-', 2 => '*', _ => '/' } }
fn level(c: char) -> u8 { if c == '*' || c == '/' { 5 } else { 4 } }

/// a o1 b o2 c with o1, o2 symbolic among + - * /: the tree is the standard one
#[kani::proof]
#[kani::unwind(10)]
#[kani::stub(alloc::fmt::format, crate::verif_kani::common::stub_format)]
#[kani::stub(str::to_lowercase, crate::verif_kani::common::stub_to_lowercase_ascii_lower)]
#[kani::stub(core::str::slice_error_fail, crate::verif_kani::common::stub_slice_error_fail)]
fn c13_climb_two_arith() {
    let o1 = arith(kani::any());
    let o2 = arith(kani::any());
    let tokens = vec![ident('a'), Token::Operator(Operator::Single(o1)), ident('b'), Token::Operator(Operator::Single(o2)), ident('c'), Token::End];
    let binary = ManuallyDrop::new(BinaryOperators::new());
    let unary = ManuallyDrop::new(UnaryOperators::new());
    let mut parser = ManuallyDrop::new(Parser::from_plain_tokens(&binary, &unary, tokens));
    let result = ManuallyDrop::new(parser.parse_expression());
    assert!(result.is_ok(), "C13 a chain of binary operators parses");
    if let Ok(tree) = &*result {
        let top = as_binary(tree);
        assert!(top.is_some(), "C13 the result is a binary operator node");
        let (op, l, r) = top.unwrap();
        if level(o2) > level(o1) {
            // a o1 (b o2 c)
            assert!(op == Operator::Single(o1) && is_column(l, 'a'), "C13 the tighter operator groups first");
            let inner = as_binary(r);
            assert!(inner.is_some(), "C13 the tighter operator groups first");
            let (iop, il, ir) = inner.unwrap();
            assert!(iop == Operator::Single(o2) && is_column(il, 'b') && is_column(ir, 'c'), "C13 the tighter operator groups first");
        } else {
            // (a o1 b) o2 c : tighter-or-equal on the left, left associativity
            assert!(op == Operator::Single(o2) && is_column(r, 'c'), "C13 binary operators associate to the left");
            let inner = as_binary(l);
            assert!(inner.is_some(), "C13 binary operators associate to the left");
            let (iop, il, ir) = inner.unwrap();
            assert!(iop == Operator::Single(o1) && is_column(il, 'a') && is_column(ir, 'b'), "C13 binary operators associate to the left");
        }
    }
    kani::cover!(level(o2) > level(o1), "climb2: tighter second reachable");
}

/// a o1 b o2 c o3 d with a low-high-low pattern (o1, o3 in + -, o2 in * /): ((a o1 (b o2 c)) o3 d)
#[kani::proof]
#[kani::unwind(10)]
#[kani::stub(alloc::fmt::format, crate::verif_kani::common::stub_format)]
#[kani::stub(str::to_lowercase, crate::verif_kani::common::stub_to_lowercase_ascii_lower)]
#[kani::stub(core::str::slice_error_fail, crate::verif_kani::common::stub_slice_error_fail)]
fn c13_climb_low_high_low() {
    let o1 = if kani::any() { '+' } else { '-' };
    let o2 = if kani::any() { '*' } else { '/' };
    let o3 = if kani::any() { '+' } else { '-' };
    let tokens = vec![ident('a'), Token::Operator(Operator::Single(o1)), ident('b'), Token::Operator(Operator::Single(o2)), ident('c'),
                      Token::Operator(Operator::Single(o3)), ident('d'), Token::End];
    let binary = ManuallyDrop::new(BinaryOperators::new());
    let unary = ManuallyDrop::new(UnaryOperators::new());
    let mut parser = ManuallyDrop::new(Parser::from_plain_tokens(&binary, &unary, tokens));
    let result = ManuallyDrop::new(parser.parse_expression());
    assert!(result.is_ok(), "C13 a chain of binary operators parses");
    if let Ok(tree) = &*result {
        let top = as_binary(tree);
        assert!(top.is_some(), "C13 the result is a binary operator node");
        let (op, l, r) = top.unwrap();
        assert!(op == Operator::Single(o3) && is_column(r, 'd'), "C13 binary operators associate to the left");
        let mid = as_binary(l);
        assert!(mid.is_some(), "C13 binary operators associate to the left");
        let (mop, ml, mr) = mid.unwrap();
        assert!(mop == Operator::Single(o1) && is_column(ml, 'a'), "C13 binary operators associate to the left");
        let inner = as_binary(mr);
        assert!(inner.is_some(), "C13 the tighter operator groups first");
        let (iop, il, ir) = inner.unwrap();
        assert!(iop == Operator::Single(o2) && is_column(il, 'b') && is_column(ir, 'c'), "C13 the tighter operator groups first");
    }
    kani::cover!(true, "climb3: end reachable");
}

#[cfg(test)]
#[path = "/verif/.cache/playback/parser.rs"]
mod playback_gen;

// cfg(kani) child module of src/.../parser.rs (see DESIGN.md §1.1)

// cfg(kani) module mounted at the crate root of sqlgrep (hook in src/lib.rs).
// Common helpers + the C16 harnesses (Value's Eq / Ord / Hash are public API).
#![allow(dead_code, unused_imports, unused_macros)]

use std::cmp::Ordering;
use std::hash::{Hash, Hasher};
use std::mem::ManuallyDrop;

use crate::model::{Float, Value, ValueType};

pub mod common;
pub mod shim;
pub mod c16;
pub mod c09;

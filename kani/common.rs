// Shared harness helpers: symbolic constructors for Value (shape concrete, payload symbolic),
// hashing through the two hashers the engine uses, and the environment stubs (rule R5).
use std::hash::{Hash, Hasher};
use std::mem::ManuallyDrop;

use chrono::{DateTime, FixedOffset, Local, NaiveDate, NaiveDateTime, NaiveTime, TimeDelta, TimeZone};

use crate::model::{Float, Value, ValueType};

pub type MD<T> = ManuallyDrop<T>;

/// Variant tags (concrete in every harness).
pub const V_NULL: u8 = 0;
pub const V_INT: u8 = 1;
pub const V_FLOAT: u8 = 2;
pub const V_BOOL: u8 = 3;
pub const V_STRING: u8 = 4;
pub const V_ARRAY: u8 = 5;
pub const V_TIMESTAMP: u8 = 6;
pub const V_INTERVAL: u8 = 7;

/// A string of at most `max` ASCII bytes with symbolic content and symbolic length.
pub fn any_ascii_string(max: usize) -> String {
    let mut bytes: Vec<u8> = Vec::with_capacity(max);
    let len: usize = kani::any();
    kani::assume(len <= max);
    let mut i = 0;
    while i < max {
        if i < len {
            let b: u8 = kani::any();
            kani::assume(b < 0x80);
            bytes.push(b);
        }
        i += 1;
    }
    unsafe { String::from_utf8_unchecked(bytes) }
}

/// Any instant within +-2^40 seconds of the epoch, any sub-second part.
pub fn any_timestamp() -> DateTime<Local> {
    let secs: i64 = kani::any();
    kani::assume(secs > -(1i64 << 40) && secs < (1i64 << 40));
    let nanos: u32 = kani::any();
    kani::assume(nanos < 1_000_000_000);
    let utc = DateTime::from_timestamp(secs, nanos).unwrap().naive_utc();
    let off_secs: i32 = kani::any();
    kani::assume(off_secs > -86_400 && off_secs < 86_400);
    let off = FixedOffset::east_opt(off_secs).unwrap();
    DateTime::<Local>::from_naive_utc_and_offset(utc, off)
}

pub fn any_interval() -> TimeDelta {
    let secs: i64 = kani::any();
    kani::assume(secs > -(1i64 << 50) && secs < (1i64 << 50));
    let nanos: u32 = kani::any();
    kani::assume(nanos < 1_000_000_000);
    TimeDelta::new(secs, nanos).unwrap()
}

/// A value of the (concrete) variant `tag` with an arbitrary payload.
/// Arrays: INT elements, length `arr_len` (concrete), elements arbitrary Int or Null.
pub fn any_value(tag: u8, arr_len: usize) -> MD<Value> {
    ManuallyDrop::new(match tag {
        V_NULL => Value::Null,
        V_INT => Value::Int(kani::any()),
        V_FLOAT => Value::Float(Float(kani::any())),
        V_BOOL => Value::Bool(kani::any()),
        V_STRING => Value::String(any_ascii_string(2)),
        V_ARRAY => {
            let mut v = Vec::with_capacity(arr_len);
            let mut i = 0;
            while i < arr_len {
                v.push(Value::Int(kani::any()));
                i += 1;
            }
            Value::Array(ValueType::Int, v)
        }
        V_TIMESTAMP => Value::Timestamp(any_timestamp()),
        _ => Value::Interval(any_interval()),
    })
}

pub fn fnv_hash<T: Hash>(x: &T) -> u64 {
    let mut h = fnv::FnvHasher::default();
    x.hash(&mut h);
    h.finish()
}

#[allow(deprecated)]
pub fn sip_hash<T: Hash>(x: &T) -> u64 {
    // DefaultHasher::new() = SipHash-1-3 with zero keys (what RandomState does, minus the seed)
    let mut h = std::collections::hash_map::DefaultHasher::new();
    x.hash(&mut h);
    h.finish()
}

/// Records what a value feeds to a Hasher, loop-free: two values "hash equally" for *every*
/// Hasher if they feed it the same call stream.  Integer writes are recorded as (width, value)
/// words; byte-slice writes (str) record length and up to 4 bytes.  Bounded to 12 words.
pub struct RecordingHasher {
    pub words: [u64; 12],
    pub len: usize,
    pub overflow: bool,
}

impl RecordingHasher {
    pub fn new() -> Self { RecordingHasher { words: [0; 12], len: 0, overflow: false } }
    pub fn of<T: Hash>(x: &T) -> Self {
        let mut h = RecordingHasher::new();
        x.hash(&mut h);
        h
    }
    fn push(&mut self, w: u64) {
        if self.len < 12 {
            self.words[self.len] = w;
            self.len += 1;
        } else {
            self.overflow = true;
        }
    }
    pub fn same(&self, other: &Self) -> bool {
        if self.len != other.len || self.overflow || other.overflow { return false; }
        let a = &self.words;
        let b = &other.words;
        let n = self.len;
        (n <= 0 || a[0] == b[0]) && (n <= 1 || a[1] == b[1]) && (n <= 2 || a[2] == b[2]) && (n <= 3 || a[3] == b[3])
            && (n <= 4 || a[4] == b[4]) && (n <= 5 || a[5] == b[5]) && (n <= 6 || a[6] == b[6]) && (n <= 7 || a[7] == b[7])
            && (n <= 8 || a[8] == b[8]) && (n <= 9 || a[9] == b[9]) && (n <= 10 || a[10] == b[10]) && (n <= 11 || a[11] == b[11])
    }
}

impl Hasher for RecordingHasher {
    fn finish(&self) -> u64 { 0 }
    fn write(&mut self, bytes: &[u8]) {
        let n = bytes.len();
        self.push(0x100 + n as u64);
        let mut w: u64 = 0;
        if n > 0 { w |= bytes[0] as u64; }
        if n > 1 { w |= (bytes[1] as u64) << 8; }
        if n > 2 { w |= (bytes[2] as u64) << 16; }
        if n > 3 { w |= (bytes[3] as u64) << 24; }
        if n > 4 { self.overflow = true; }
        self.push(w);
    }
    fn write_u8(&mut self, i: u8) { self.push(1); self.push(i as u64); }
    fn write_u16(&mut self, i: u16) { self.push(2); self.push(i as u64); }
    fn write_u32(&mut self, i: u32) { self.push(4); self.push(i as u64); }
    fn write_u64(&mut self, i: u64) { self.push(8); self.push(i); }
    fn write_usize(&mut self, i: usize) { self.push(9); self.push(i as u64); }
    fn write_i8(&mut self, i: i8) { self.push(1); self.push(i as u8 as u64); }
    fn write_i16(&mut self, i: i16) { self.push(2); self.push(i as u16 as u64); }
    fn write_i32(&mut self, i: i32) { self.push(4); self.push(i as u32 as u64); }
    fn write_i64(&mut self, i: i64) { self.push(8); self.push(i as u64); }
    fn write_isize(&mut self, i: isize) { self.push(9); self.push(i as u64); }
}

// ---------------------------------------------------------------------------------------------
// Environment stubs (R5).  Each is the *contract* of the environment, not an implementation.

/// `alloc::fmt::format` where formatting is not the subject.
pub fn stub_format(_args: std::fmt::Arguments<'_>) -> String {
    String::new()
}

/// The local time zone as a symbolic environment: a local wall-clock time maps to no instant
/// (DST gap), one instant, or two (DST fold); offsets are any whole number of seconds within a day.
pub fn stub_offset_from_local_datetime(_tz: &Local, _local: &NaiveDateTime) -> chrono::LocalResult<FixedOffset> {
    let k: u8 = kani::any();
    let o1: i32 = kani::any();
    let o2: i32 = kani::any();
    kani::assume(o1 > -86_400 && o1 < 86_400 && o2 > -86_400 && o2 < 86_400);
    let f1 = FixedOffset::east_opt(o1).unwrap();
    let f2 = FixedOffset::east_opt(o2).unwrap();
    if k == 0 {
        chrono::LocalResult::None
    } else if k == 1 {
        chrono::LocalResult::Single(f1)
    } else {
        chrono::LocalResult::Ambiguous(f1, f2)
    }
}

pub fn stub_offset_from_utc_datetime(_tz: &Local, _utc: &NaiveDateTime) -> FixedOffset {
    let o1: i32 = kani::any();
    kani::assume(o1 > -86_400 && o1 < 86_400);
    FixedOffset::east_opt(o1).unwrap()
}

/// `Local::now()`: an arbitrary instant.
pub fn stub_local_now() -> DateTime<Local> {
    any_timestamp()
}

/// `Regex::new`: a `Regex` value cannot be fabricated, so the environment answers "invalid pattern".
/// (The Ok path of regex_matches is outside every claim.)
pub fn stub_regex_new(_re: &str) -> Result<regex::Regex, regex::Error> {
    Err(regex::Error::Syntax(String::new()))
}

/// chrono's strftime-style parser is environment for the evaluator harnesses: any parse result.
pub fn stub_naive_parse_from_str(_s: &str, _fmt: &str) -> chrono::ParseResult<NaiveDateTime> {
    if kani::any() {
        // some wall-clock time on a date with a DST switch in many zones; which hour is symbolic
        let hour: u32 = kani::any();
        kani::assume(hour < 24);
        Ok(NaiveDate::from_ymd_opt(2021, 3, 28).unwrap().and_hms_opt(hour, 30, 0).unwrap())
    } else {
        // ParseError is a newtype around the public ParseErrorKind (no public constructor)
        Err(unsafe { std::mem::transmute::<chrono::format::ParseErrorKind, chrono::ParseError>(chrono::format::ParseErrorKind::Invalid) })
    }
}

/// `Display for Value` where the rendered text is not the subject.
pub fn stub_value_display(_v: &Value, _f: &mut std::fmt::Formatter<'_>) -> std::fmt::Result {
    Ok(())
}

// ---------------------------------------------------------------------------------------------
// Scalar-only replacements for the derived glue of `Value` (a deliberate cut, DESIGN.md R8): the derived
// Clone / PartialEq / PartialOrd recurse through `Array(ValueType, Vec<Value>)`, and CBMC walks that
// recursion to the unwinding bound on every call even when no array can occur.  These stubs behave exactly
// like the derived code on the seven scalar variants (the derived code itself is decided in C16) and
// exclude arrays by assumption, so harnesses using them state "no array operand" in their bounds.
pub fn stub_value_clone_scalar(v: &Value) -> Value {
    match v {
        Value::Null => Value::Null,
        Value::Int(x) => Value::Int(*x),
        Value::Float(x) => Value::Float(*x),
        Value::Bool(x) => Value::Bool(*x),
        Value::String(x) => Value::String(x.clone()),
        Value::Timestamp(x) => Value::Timestamp(*x),
        Value::Interval(x) => Value::Interval(*x),
        Value::Array(_, _) => { kani::assume(false); Value::Null }
    }
}

fn scalar_rank(v: &Value) -> u8 {
    match v {
        Value::Null => 0, Value::Int(_) => 1, Value::Float(_) => 2, Value::Bool(_) => 3,
        Value::String(_) => 4, Value::Array(_, _) => 5, Value::Timestamp(_) => 6, Value::Interval(_) => 7,
    }
}

pub fn stub_value_eq_scalar(a: &Value, b: &Value) -> bool {
    match (a, b) {
        (Value::Null, Value::Null) => true,
        (Value::Int(x), Value::Int(y)) => x == y,
        (Value::Float(x), Value::Float(y)) => x == y,
        (Value::Bool(x), Value::Bool(y)) => x == y,
        (Value::String(x), Value::String(y)) => x == y,
        (Value::Timestamp(x), Value::Timestamp(y)) => x == y,
        (Value::Interval(x), Value::Interval(y)) => x == y,
        (Value::Array(_, _), _) | (_, Value::Array(_, _)) => { kani::assume(false); false }
        _ => false,
    }
}

pub fn stub_value_partial_cmp_scalar(a: &Value, b: &Value) -> Option<std::cmp::Ordering> {
    match (a, b) {
        (Value::Null, Value::Null) => Some(std::cmp::Ordering::Equal),
        (Value::Int(x), Value::Int(y)) => x.partial_cmp(y),
        (Value::Float(x), Value::Float(y)) => x.partial_cmp(y),
        (Value::Bool(x), Value::Bool(y)) => x.partial_cmp(y),
        (Value::String(x), Value::String(y)) => x.partial_cmp(y),
        (Value::Timestamp(x), Value::Timestamp(y)) => x.partial_cmp(y),
        (Value::Interval(x), Value::Interval(y)) => x.partial_cmp(y),
        (Value::Array(_, _), _) | (_, Value::Array(_, _)) => { kani::assume(false); None }
        _ => scalar_rank(a).partial_cmp(&scalar_rank(b)),
    }
}

/// `RandomState::new()`: fixed keys (the seed is environment; hash-map iteration order is never observed by a claimed check)
pub fn stub_random_state_new() -> std::hash::RandomState {
    unsafe { std::mem::transmute::<(u64, u64), std::hash::RandomState>((1u64, 2u64)) }
}

/// `str::to_lowercase` for the harnesses whose identifiers are lower-case ASCII already (Unicode case tables
/// and the char-boundary search of the real function dominate symbolic execution otherwise): identity.
pub fn stub_to_lowercase_ascii_lower(s: &str) -> String {
    s.to_owned()
}

/// `core::str::slice_error_fail`: the panic of an out-of-range / non-boundary str slice, without computing its
/// message (which searches char boundaries in loops).
pub fn stub_slice_error_fail(_s: &str, _begin: usize, _end: usize) -> ! {
    panic!("str slice out of range or not on a char boundary")
}

/// Like `stub_value_clone_scalar`, but also clones arrays of scalars (element type a scalar type, elements
/// scalars): one level, no recursion.  Used by the array-subscript harnesses.
pub fn stub_value_clone_array1(v: &Value) -> Value {
    match v {
        Value::Array(t, items) => {
            let t2 = match t {
                ValueType::Int => ValueType::Int, ValueType::Float => ValueType::Float, ValueType::Bool => ValueType::Bool,
                ValueType::String => ValueType::String, ValueType::Timestamp => ValueType::Timestamp, ValueType::Interval => ValueType::Interval,
                ValueType::Array(_) => { kani::assume(false); ValueType::Int }
            };
            let mut out = Vec::with_capacity(2);
            if items.len() > 0 { out.push(stub_value_clone_scalar(&items[0])); }
            if items.len() > 1 { out.push(stub_value_clone_scalar(&items[1])); }
            kani::assume(items.len() <= 2);
            Value::Array(t2, out)
        }
        other => stub_value_clone_scalar(other),
    }
}

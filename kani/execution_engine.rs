// cfg(kani) child module of src/execution/execution_engine.rs: ExecutionEngine::execute's dispatch,
// the "no row => no trace" early returns (C06) and LIMIT accounting (C07), one step from an arbitrary
// engine state.  Everything below the dispatcher is replaced by contract stubs (listed in the registry).
#![allow(dead_code, unused_imports, unused_macros, static_mut_refs)]

use std::collections::HashMap;
use std::mem::ManuallyDrop;

use crate::data_model::{Row, TableDefinition, Tables};
use crate::execution::column_providers::HashMapColumnProvider;
use crate::execution::aggregate_execution::AggregateExecutionEngine;
use crate::execution::select_execution::SelectExecutionEngine;
use crate::execution::join::JoinedTableData;
use crate::execution::{ColumnProvider, ColumnScope, ExecutionError, ExecutionResult, ResultRow};
use crate::model::{AggregateStatement, JoinClause, SelectStatement, Statement, Value};
use crate::verif_kani::common::*;

use super::{ExecutionConfig, ExecutionEngine, ExecutionOutput};

// ---- harness <-> stub communication -------------------------------------------------------------
static mut ADMIT: bool = false;        // does the (stubbed) extraction admit the line?
static mut NOISE_COLS: u8 = 0;         // number of (NULL) columns of a non-admitted row
static mut TOUCHED: bool = false;      // set by every stub that stands for "engine state was consulted / changed"
static mut OUT_ROWS: u8 = 0;           // rows the (stubbed) select / aggregate engine returns for this line
static mut OUT_NULLONLY: [bool; 3] = [false; 3];
static mut TABLE: Option<&'static TableDefinition> = None;

fn the_table() -> &'static TableDefinition {
    unsafe {
        if TABLE.is_none() {
            let t = TableDefinition::new("t", Vec::new(), Vec::new()).unwrap();
            TABLE = Some(Box::leak(Box::new(t)));
        }
        TABLE.unwrap()
    }
}

fn stub_tables_get<'a>(_this: &'a Tables, _name: &str) -> Option<&'a TableDefinition> {
    Some(the_table())
}

/// `TableDefinition::extract`: the row of one line - admitted (one non-NULL column) or not (0..2 NULL columns).
fn stub_extract(_this: &TableDefinition, _line: &str) -> Row {
    unsafe {
        if ADMIT {
            Row::new(vec![Value::Int(7)])
        } else if NOISE_COLS == 0 {
            Row::new(Vec::new())
        } else {
            Row::new(vec![Value::Null])
        }
    }
}

fn out_row(i: usize) -> Row {
    unsafe {
        if OUT_NULLONLY[i] { Row::new(vec![Value::Null]) } else { Row::new(vec![Value::Int(100 + i as i64)]) }
    }
}

/// is `row` the i-th row the stub handed out?
fn is_out_row(row: &Row, i: usize) -> bool {
    if row.columns.len() != 1 { return false; }
    match &row.columns[0] {
        Value::Null => unsafe { OUT_NULLONLY[i] },
        Value::Int(x) => (unsafe { !OUT_NULLONLY[i] }) && *x == 100 + i as i64,
        _ => false,
    }
}

fn stub_output() -> Option<ResultRow> {
    unsafe {
        let data = match OUT_ROWS {
            0 => return None,
            1 => vec![out_row(0)],
            _ => vec![out_row(0), out_row(1)],
        };
        Some(ResultRow { data, columns: Vec::new() })
    }
}

fn stub_select_execute<T: ColumnProvider>(_this: &mut SelectExecutionEngine, _st: &SelectStatement, _row: T) -> ExecutionResult<Option<ResultRow>> {
    unsafe { TOUCHED = true; }
    Ok(stub_output())
}

fn stub_aggregate_execute<T: ColumnProvider>(_this: &mut AggregateExecutionEngine, _st: &AggregateStatement, _row: T) -> ExecutionResult<Option<ResultRow>> {
    unsafe { TOUCHED = true; }
    Ok(stub_output())
}

fn stub_aggregate_execute_update<T: ColumnProvider>(_this: &mut AggregateExecutionEngine, _st: &AggregateStatement, _row: T) -> ExecutionResult<bool> {
    unsafe { TOUCHED = true; }
    Ok(true)
}

fn stub_aggregate_execute_result(_this: &mut AggregateExecutionEngine, _st: &AggregateStatement) -> ExecutionResult<ResultRow> {
    Ok(stub_output().unwrap_or(ResultRow { data: Vec::new(), columns: Vec::new() }))
}

fn stub_execute_join<F: FnMut(HashMapColumnProvider) -> ExecutionResult<Option<ResultRow>>>(
    _table_definition: &TableDefinition, _row: &Row, _line_value: &Value, _join_clause: &JoinClause,
    _joined_table_data: &JoinedTableData, _allow_outer: bool, _execute: F) -> ExecutionResult<ExecutionOutput> {
    unsafe { TOUCHED = true; }
    Ok(ExecutionOutput::joined(stub_output()))
}

fn stub_create_columns_mapping<'a>(_t: &'a TableDefinition, _row: &'a Row, _line: &'a Value) -> HashMap<&'a str, &'a Value> where 'a: 'a {
    unsafe { TOUCHED = true; }
    HashMap::new()
}

fn stub_create_table_scope<'a>(_columns: HashMap<&'a str, &'a Value>) -> HashMap<ColumnScope, HashMap<&'a str, &'a Value>> where 'a: 'a {
    HashMap::new()
}

fn stub_random_state_new() -> std::hash::RandomState {
    unsafe { std::mem::transmute::<(u64, u64), std::hash::RandomState>((1u64, 2u64)) }
}

macro_rules! engine_proof {
    ($(#[$m:meta])* fn $name:ident() $body:block) => {
        #[kani::proof]
        #[kani::unwind(2)]
        #[kani::stub(<crate::model::Value as std::clone::Clone>::clone, crate::verif_kani::common::stub_value_clone_scalar)]
        #[kani::stub(alloc::fmt::format, crate::verif_kani::common::stub_format)]
        #[kani::stub(std::hash::RandomState::new, stub_random_state_new)]
        #[kani::stub(regex::Regex::new, crate::verif_kani::common::stub_regex_new)]
        #[kani::stub(crate::data_model::Tables::get, stub_tables_get)]
        #[kani::stub(crate::data_model::TableDefinition::extract, stub_extract)]
        #[kani::stub(crate::execution::select_execution::SelectExecutionEngine::execute, stub_select_execute)]
        #[kani::stub(crate::execution::aggregate_execution::AggregateExecutionEngine::execute, stub_aggregate_execute)]
        #[kani::stub(crate::execution::aggregate_execution::AggregateExecutionEngine::execute_update, stub_aggregate_execute_update)]
        #[kani::stub(crate::execution::aggregate_execution::AggregateExecutionEngine::execute_result, stub_aggregate_execute_result)]
        #[kani::stub(crate::execution::join::execute_join, stub_execute_join)]
        #[kani::stub(crate::execution::execution_engine::ExecutionEngine::create_columns_mapping, stub_create_columns_mapping)]
        #[kani::stub(crate::execution::column_providers::HashMapColumnProvider::create_table_scope, stub_create_table_scope)]
        $(#[$m])*
        fn $name() $body
    };
}

macro_rules! engine_proof3 {
    ($(#[$m:meta])* fn $name:ident() $body:block) => {
        #[kani::proof]
        #[kani::unwind(3)]
        #[kani::stub(<crate::model::Value as std::clone::Clone>::clone, crate::verif_kani::common::stub_value_clone_scalar)]
        #[kani::stub(alloc::fmt::format, crate::verif_kani::common::stub_format)]
        #[kani::stub(std::hash::RandomState::new, stub_random_state_new)]
        #[kani::stub(regex::Regex::new, crate::verif_kani::common::stub_regex_new)]
        #[kani::stub(crate::data_model::Tables::get, stub_tables_get)]
        #[kani::stub(crate::data_model::TableDefinition::extract, stub_extract)]
        #[kani::stub(crate::execution::select_execution::SelectExecutionEngine::execute, stub_select_execute)]
        #[kani::stub(crate::execution::aggregate_execution::AggregateExecutionEngine::execute, stub_aggregate_execute)]
        #[kani::stub(crate::execution::aggregate_execution::AggregateExecutionEngine::execute_update, stub_aggregate_execute_update)]
        #[kani::stub(crate::execution::aggregate_execution::AggregateExecutionEngine::execute_result, stub_aggregate_execute_result)]
        #[kani::stub(crate::execution::join::execute_join, stub_execute_join)]
        #[kani::stub(crate::execution::execution_engine::ExecutionEngine::create_columns_mapping, stub_create_columns_mapping)]
        #[kani::stub(crate::execution::column_providers::HashMapColumnProvider::create_table_scope, stub_create_table_scope)]
        $(#[$m])*
        fn $name() $body
    };
}

fn join_clause() -> JoinClause {
    JoinClause { joiner_column: String::new(), joined_table: String::new(), joined_filename: String::new(), joined_column: String::new(), is_outer: kani::any() }
}

fn select_statement(limit: Option<usize>, join: bool) -> MD<Statement> {
    ManuallyDrop::new(Statement::Select(SelectStatement {
        projections: Vec::new(), from: String::new(), filename: None, filter: None,
        join: if join { Some(join_clause()) } else { None }, limit, distinct: kani::any(),
    }))
}

fn aggregate_statement(limit: Option<usize>, join: bool) -> MD<Statement> {
    ManuallyDrop::new(Statement::Aggregate(AggregateStatement {
        aggregates: Vec::new(), from: String::new(), filename: None, filter: None, group_by: None, having: None,
        join: if join { Some(join_clause()) } else { None }, limit, distinct: kani::any(),
    }))
}

fn any_limit() -> Option<usize> {
    if kani::any() { None } else { let n: u8 = kani::any(); Some(n as usize) }
}

// ------------------------------------------------------------------------------------------------
// C06 part 2: a line that yields no row leaves no trace - for the three dispatch paths, with and
// without a joined table, from an arbitrary LIMIT counter: no engine is consulted, nothing is emitted,
// the row counter does not move.
macro_rules! noise_harness {
    ($name:ident, $is_aggregate:expr, $update:expr, $result:expr, $join:expr) => {
        engine_proof! {
            fn $name() {
                unsafe {
                    ADMIT = false;
                    NOISE_COLS = kani::any();
                    kani::assume(NOISE_COLS <= 1);
                    OUT_ROWS = kani::any();
                    kani::assume(OUT_ROWS <= 1);
                    TOUCHED = false;
                }
                let tables = ManuallyDrop::new(Tables::new());
                let limit = any_limit();
                let statement = if $is_aggregate { aggregate_statement(limit, $join) } else { select_statement(limit, $join) };
                let mut engine = ManuallyDrop::new(ExecutionEngine::new(&tables, &statement));
                let before: u8 = kani::any();
                engine.num_output_rows = before as usize;
                if $join { engine.joined_table_data = Some(JoinedTableData::new(the_table())); }
                let config = ExecutionConfig { update: $update, result: $result };
                let out = ManuallyDrop::new(engine.execute(String::new(), &config));
                assert!(out.is_ok(), "C06 a line that yields no row is not an error");
                assert!(unsafe { !TOUCHED }, "C06 a line that yields no row reaches no engine state");
                if let Ok(o) = &*out {
                    assert!(o.result_row.is_none(), "C06 a line that yields no row emits nothing");
                }
                assert!(engine.num_output_rows == before as usize, "C06 a line that yields no row does not move the LIMIT counter");
                kani::cover!(unsafe { NOISE_COLS == 1 }, "noise: a NULL column reachable");
            }
        }
    };
}
noise_harness!(c06_noise_select, false, true, true, false);
noise_harness!(c06_noise_select_join, false, true, true, true);
noise_harness!(c06_noise_aggregate_follow, true, true, true, false);
noise_harness!(c06_noise_aggregate_follow_join, true, true, true, true);
noise_harness!(c06_noise_aggregate_batch, true, true, false, false);
noise_harness!(c06_noise_aggregate_batch_join, true, true, false, true);

/// and an admitted line does reach the engine (the stubs are live; guards against a vacuous part 2)
engine_proof! {
    fn c06_admitted_reaches_engine() {
        unsafe { ADMIT = true; OUT_ROWS = 1; OUT_NULLONLY = [false; 3]; TOUCHED = false; }
        let tables = ManuallyDrop::new(Tables::new());
        let statement = select_statement(None, false);
        let mut engine = ManuallyDrop::new(ExecutionEngine::new(&tables, &statement));
        let out = ManuallyDrop::new(engine.execute(String::new(), &ExecutionConfig::default()));
        assert!(unsafe { TOUCHED }, "C06 an admitted line is handed to the select engine");
        if let Ok(o) = &*out { assert!(o.result_row.is_some(), "C06 the select engine's row is passed on"); }
        kani::cover!(out.is_ok(), "admitted: ok reachable");
    }
}

// ------------------------------------------------------------------------------------------------
// C07: LIMIT n as a one-step invariant of the select path.  Pre-state: `emitted` rows have been handed
// out so far, emitted <= n, and the executor only offers another line while the limit has not been
// reported (emitted < n, or nothing yet for n = 0).  Post: never more than n rows in total, in the
// engine's order, and reached_limit exactly when n rows are out.
macro_rules! limit_step_harness {
    ($name:ident, $join:expr, $max_rows:expr, $allow_nullonly:expr, $allow_zero:expr) => {
        engine_proof! {
            fn $name() {
                let n: u8 = kani::any();
                let emitted: u8 = kani::any();
                if !$allow_zero { kani::assume(n >= 1); }
                kani::assume(emitted < n || (n == 0 && emitted == 0));
                unsafe {
                    ADMIT = true;
                    OUT_ROWS = kani::any();
                    kani::assume(OUT_ROWS <= $max_rows);
                    OUT_NULLONLY = [kani::any(), kani::any(), kani::any()];
                    if !$allow_nullonly { kani::assume(!OUT_NULLONLY[0] && !OUT_NULLONLY[1] && !OUT_NULLONLY[2]); }
                    TOUCHED = false;
                }
                let tables = ManuallyDrop::new(Tables::new());
                let statement = select_statement(Some(n as usize), $join);
                let mut engine = ManuallyDrop::new(ExecutionEngine::new(&tables, &statement));
                engine.num_output_rows = emitted as usize;
                if $join { engine.joined_table_data = Some(JoinedTableData::new(the_table())); }
                let out = ManuallyDrop::new(engine.execute(String::new(), &ExecutionConfig::default()));
                assert!(out.is_ok(), "C07 LIMIT accounting does not fail");
                if let Ok(o) = &*out {
                    let offered = unsafe { OUT_ROWS } as usize;
                    let got = match &o.result_row { Some(r) => r.data.len(), None => 0 };
                    let room = (n - emitted) as usize;
                    let expected = if offered < room { offered } else { room };
                    assert!(got == expected, "C07 exactly the first n rows are emitted (never more than the rows still allowed)");
                    if let Some(r) = &o.result_row {
                        // the emitted rows are the first `got` rows of the engine's output, in order
                        if got >= 1 { assert!(is_out_row(&r.data[0], 0), "C07 emitted rows are a prefix of the unlimited output"); }
                    }
                    assert!(o.reached_limit == (emitted as usize + got >= n as usize), "C07 the limit is reported exactly when n rows are out");
                }
                kani::cover!(emitted + 1 == n && unsafe { OUT_ROWS } >= 1, "limit: n-th row reachable");
            }
        }
    };
}
limit_step_harness!(c07_limit_step_select, false, 1, false, false);
limit_step_harness!(c07_limit_step_select_nullonly, false, 1, true, false);
limit_step_harness!(c07_limit_step_select_zero, false, 1, false, true);
limit_step_harness!(c07_limit_step_join, true, 1, false, false);

/// without LIMIT nothing is cut and the limit is never reported
engine_proof! {
    fn c07_no_limit_step() {
        unsafe {
            ADMIT = true;
            OUT_ROWS = kani::any();
            kani::assume(OUT_ROWS <= 1);
            OUT_NULLONLY = [kani::any(), kani::any(), kani::any()];
        }
        let tables = ManuallyDrop::new(Tables::new());
        let join: bool = kani::any();
        let statement = select_statement(None, join);
        let mut engine = ManuallyDrop::new(ExecutionEngine::new(&tables, &statement));
        let before: u8 = kani::any();
        engine.num_output_rows = before as usize;
        if join { engine.joined_table_data = Some(JoinedTableData::new(the_table())); }
        let out = ManuallyDrop::new(engine.execute(String::new(), &ExecutionConfig::default()));
        if let Ok(o) = &*out {
            let got = match &o.result_row { Some(r) => r.data.len(), None => 0 };
            assert!(got == unsafe { OUT_ROWS } as usize, "C07 without LIMIT every row is emitted");
            assert!(!o.reached_limit, "C07 without LIMIT the limit is never reported");
        }
        kani::cover!(out.is_ok(), "no limit: ok reachable");
    }
}

/// batch aggregates: the final table is cut to its first n rows, in order
engine_proof! {
    fn c07_aggregate_result_truncated() {
        unsafe {
            OUT_ROWS = kani::any();
            kani::assume(OUT_ROWS <= 1);
            OUT_NULLONLY = [kani::any(), kani::any(), kani::any()];
        }
        let tables = ManuallyDrop::new(Tables::new());
        let limit = any_limit();
        let statement = aggregate_statement(limit, false);
        let mut engine = ManuallyDrop::new(ExecutionEngine::new(&tables, &statement));
        let out = ManuallyDrop::new(engine.execute(String::new(), &ExecutionConfig::aggregate_result()));
        assert!(out.is_ok(), "C07 the final aggregate table is produced");
        if let Ok(o) = &*out {
            let offered = unsafe { OUT_ROWS } as usize;
            let expected = match limit { Some(n) if n < offered => n, _ => offered };
            let got = match &o.result_row { Some(r) => r.data.len(), None => 0 };
            assert!(got == expected, "C07 an aggregate query keeps the first n groups of the full result");
            if let Some(r) = &o.result_row {
                if got >= 1 { assert!(is_out_row(&r.data[0], 0), "C07 kept groups are a prefix of the full result"); }
                if got >= 2 { assert!(is_out_row(&r.data[1], 1), "C07 kept groups are a prefix of the full result"); }
            }
        }
        kani::cover!(unsafe { OUT_ROWS } == 1, "aggregate result: a row reachable");
    }
}

#[cfg(test)]
#[path = "/verif/.cache/playback/execution_engine.rs"]
mod playback_gen;

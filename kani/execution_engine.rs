// cfg(kani) child module of src/.../execution_engine.rs (see DESIGN.md §1.1)

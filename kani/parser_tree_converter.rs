// cfg(kani) child module of src/.../parser_tree_converter.rs (see DESIGN.md §1.1)

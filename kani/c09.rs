// C09 - execution is total: kernels of src/model.rs that every query path crosses, with the local time
// zone and chrono's format parser as symbolic environment.
use std::mem::ManuallyDrop;

use crate::model::{create_timestamp, Float, Value, ValueType};
use super::common::*;

/// No (year, month, day, h, m, s, us) and no time-zone answer (gap, fold, any offset) makes
/// create_timestamp panic; out-of-range parts give None.
#[kani::proof]
#[kani::unwind(4)]
#[kani::stub(chrono::Local::now, crate::verif_kani::common::stub_local_now)]
#[kani::stub(<chrono::Local as chrono::TimeZone>::offset_from_local_datetime, crate::verif_kani::common::stub_offset_from_local_datetime)]
#[kani::stub(<chrono::Local as chrono::TimeZone>::offset_from_utc_datetime, crate::verif_kani::common::stub_offset_from_utc_datetime)]
#[kani::stub(alloc::fmt::format, crate::verif_kani::common::stub_format)]
fn c09_create_timestamp_total() {
    let year: i32 = kani::any();
    let (month, day, hour, minute, second, micro): (u32, u32, u32, u32, u32, u32) = (kani::any(), kani::any(), kani::any(), kani::any(), kani::any(), kani::any());
    let r = ManuallyDrop::new(create_timestamp(year, month, day, hour, minute, second, micro));
    if month == 0 || month > 12 || day == 0 || day > 31 || hour > 23 || minute > 59 || second > 59 {
        assert!(r.is_none(), "C09 out-of-range date parts give no timestamp");
    }
    kani::cover!(r.is_some(), "create_timestamp: Some reachable");
    kani::cover!(r.is_none() && month >= 1 && month <= 12 && day >= 1 && day <= 28 && hour <= 23 && minute <= 59 && second <= 59 && micro < 1_000_000 && year > 0 && year < 3000,
                 "create_timestamp: local time that does not exist (DST gap) reachable");
}

/// A TIMESTAMP literal whose local time does not exist or is ambiguous in the configured zone must not
/// crash the query (`'2021-03-28 02:30:00'` under TZ=Europe/Stockholm).
#[kani::proof]
#[kani::unwind(4)]
#[kani::stub(chrono::Local::now, crate::verif_kani::common::stub_local_now)]
#[kani::stub(<chrono::Local as chrono::TimeZone>::offset_from_local_datetime, crate::verif_kani::common::stub_offset_from_local_datetime)]
#[kani::stub(<chrono::Local as chrono::TimeZone>::offset_from_utc_datetime, crate::verif_kani::common::stub_offset_from_utc_datetime)]
#[kani::stub(chrono::NaiveDateTime::parse_from_str, crate::verif_kani::common::stub_naive_parse_from_str)]
#[kani::stub(alloc::fmt::format, crate::verif_kani::common::stub_format)]
fn c09_parse_timestamp_any_zone() {
    let r = ManuallyDrop::new(ValueType::Timestamp.parse("x"));
    kani::cover!(r.is_some(), "parse timestamp: Some reachable");
    kani::cover!(r.is_none(), "parse timestamp: None reachable");
}

/// Printing a REAL as JSON: NaN and the infinities have no JSON number; that must not panic.
#[kani::proof]
#[kani::unwind(4)]
#[kani::stub(alloc::fmt::format, crate::verif_kani::common::stub_format)]
fn c09_json_value_real_total() {
    let f: f64 = kani::any();
    let v = ManuallyDrop::new(Value::Float(Float(f)));
    let j = ManuallyDrop::new(v.json_value());
    if f.is_finite() {
        assert!(j.as_f64() == Some(f), "C17 a finite REAL is printed as the same JSON number");
    }
    kani::cover!(f.is_nan(), "json_value: NaN reachable");
}

/// INT / BOOLEAN / NULL as JSON recover the value exactly.
#[kani::proof]
#[kani::unwind(4)]
#[kani::stub(alloc::fmt::format, crate::verif_kani::common::stub_format)]
fn c17_json_value_scalars() {
    let i: i64 = kani::any();
    let b: bool = kani::any();
    let vi = ManuallyDrop::new(Value::Int(i));
    let vb = ManuallyDrop::new(Value::Bool(b));
    let vn = ManuallyDrop::new(Value::Null);
    let ji = ManuallyDrop::new(vi.json_value());
    let jb = ManuallyDrop::new(vb.json_value());
    let jn = ManuallyDrop::new(vn.json_value());
    assert!(ji.as_i64() == Some(i), "C17 INT is printed as the same JSON number");
    assert!(jb.as_bool() == Some(b), "C17 BOOLEAN is printed as a JSON boolean");
    assert!(jn.is_null(), "C17 NULL is printed as JSON null");
    kani::cover!(i == i64::MIN, "json scalars: MIN reachable");
}

#[cfg(test)]
#[path = "/verif/.cache/playback/c09.rs"]
mod playback_gen;
